#!/usr/bin/env python3
"""Confirm a seeded change in a scratch worktree of /repo's HEAD:
   demo passes without the patch, fails with it, and the unedited suite passes with the patch.
   usage: confirm_seed.py <seed_dir> <variant_index(1-based)> <out_json>"""
import json, os, subprocess, sys, shutil, tempfile, time
seed, vi, out = sys.argv[1], int(sys.argv[2]), sys.argv[3]
meta = json.load(open(os.path.join(seed, 'meta.json')))
v = meta['variants'][vi-1]
env = dict(os.environ, GOFLAGS='-mod=mod', GOPROXY='off', GOSUMDB='off', GOTOOLCHAIN='local')
env.pop('GOWORK', None)
wt = tempfile.mkdtemp(prefix='seedwt_', dir='/tmp')
os.rmdir(wt)
def run(cmd, cwd, timeout=1500):
    t=time.time()
    try:
        p = subprocess.run(cmd, cwd=cwd, env=env, shell=True, stdout=subprocess.PIPE, stderr=subprocess.STDOUT, timeout=timeout, text=True, errors='replace')
        return p.returncode, p.stdout[-3000:], time.time()-t
    except subprocess.TimeoutExpired as e:
        return 124, 'TIMEOUT', time.time()-t
res = {'seed': seed, 'variant': vi, 'patch': v['patch'], 'demo': v['demo']}
try:
    subprocess.check_call(['git','-C','/repo','worktree','add','--detach','-q',wt,'HEAD'])
    demo_dir = v.get('demo_dir','index/')
    dn = os.path.basename(v['demo'])
    if dn.endswith('.txt'):
        dn = dn[:-4]
    demo_dst = os.path.join(wt, demo_dir, dn)
    shutil.copy(os.path.join(seed, v['demo']), demo_dst)
    pkg = './' + demo_dir.strip('/') + '/' if demo_dir.strip('/') not in ('', '.') else '.'
    runcmd = v.get('demo_run') or ('go test -vet=off -count=1 ' + pkg)
    if '-timeout' not in runcmd:
        runcmd = runcmd.replace('go test', 'go test -timeout 600s', 1)
    rc0, o0, t0 = run(runcmd, wt)
    res['demo_without_patch'] = {'rc': rc0, 'secs': round(t0,1), 'tail': o0[-600:]}
    pa = subprocess.run(['git','-C',wt,'apply','-3',os.path.join(seed, v['patch'])], stdout=subprocess.PIPE, stderr=subprocess.STDOUT, text=True)
    res['patch_applies'] = pa.returncode == 0
    rc1, o1, t1 = run(runcmd, wt)
    res['demo_with_patch'] = {'rc': rc1, 'secs': round(t1,1), 'tail': o1[-1200:]}
    os.remove(demo_dst)
    rc2, o2, t2 = run('go build ./... && go test -vet=off -count=1 -timeout 25m ./...', wt)
    if rc2 != 0:
        # one retry: index/lock has a sleep-based sub-process test that fails under machine load
        rc2, o2, t2 = run('go build ./... && go test -vet=off -count=1 -timeout 25m ./...', wt)
        res['suite_retried'] = True
    res['suite_with_patch'] = {'rc': rc2, 'secs': round(t2,1), 'tail': '\n'.join(l for l in o2.splitlines() if not l.startswith('ok') and 'no test files' not in l)[-800:]}
    res['confirmed'] = (rc0 == 0 and rc1 != 0 and rc2 == 0 and res['patch_applies'])
finally:
    subprocess.call(['git','-C','/repo','worktree','remove','--force',wt])
json.dump(res, open(out,'w'), indent=1)
print(seed, vi, 'confirmed=' + str(res.get('confirmed')), res.get('demo_without_patch',{}).get('rc'), res.get('demo_with_patch',{}).get('rc'), res.get('suite_with_patch',{}).get('rc'))
