#!/bin/bash
# Runs the repository's pinned test suite (guard off: no build tags) and prints pass/fail counts.
export GOFLAGS=-mod=mod GOPROXY=off GOSUMDB=off GOTOOLCHAIN=local
unset GOWORK
cd "${1:-/repo}" || exit 2
out=$(go test -json -vet=off -count=1 -timeout 25m ./... 2>&1)
rc=$?
pass=$(printf '%s\n' "$out" | grep -c '"Action":"pass".*"Test":')
fail=$(printf '%s\n' "$out" | grep -c '"Action":"fail".*"Test":')
echo "tests passed=$pass failed=$fail go_test_rc=$rc"
if [ "$fail" != "0" ] || [ $rc -ne 0 ]; then
  printf '%s\n' "$out" | grep '"Action":"fail"' | head -20
  printf '%s\n' "$out" | grep -v '^{' | head -40
  exit 1
fi
exit 0
