#!/bin/bash
# usage: seedall.sh <patch.diff>   applies the patch to /repo (3-way if needed), runs every property's quick check in one process, reverts.
patch=$1
cd /repo
if ! git apply "$patch" 2>/dev/null; then
  git apply -3 "$patch" >/dev/null 2>&1 || { echo "PATCH DOES NOT APPLY: $patch"; git checkout -- . ; git reset -q; exit 2; }
  git reset -q
fi
out=$(/verif/bin/verifcheck -all 2>&1)
echo "$out" | grep -E "construct:|^C[0-9]+ (HELD|VIOLATED|UNDECIDED)|^UNDECIDED|^VACUOUS" | cut -c1-220
git -C /repo checkout -- .
git -C /repo status --short | head -3
