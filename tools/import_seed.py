#!/usr/bin/env python3
"""import_seed.py <agent_out_dir> <variant(1-based)> <new_id> <confirm_json> <missed_at_first:0|1> <detected_by...>
Copies a confirmed seeded change into /verif/seeded/<new_id>/ (patch.diff, demo, meta.json)."""
import json, os, shutil, sys
src, vi, nid, conf, missed = sys.argv[1], int(sys.argv[2]), sys.argv[3], sys.argv[4], sys.argv[5] == '1'
det = sys.argv[6:]
m = json.load(open(os.path.join(src, 'meta.json')))
v = m['variants'][vi-1]
c = json.load(open(conf))
assert c.get('confirmed'), 'not confirmed'
d = os.path.join('/verif/seeded', nid)
os.makedirs(d, exist_ok=True)
shutil.copy(os.path.join(src, v['patch']), os.path.join(d, 'patch.diff'))
demo = os.path.basename(v['demo'])
shutil.copy(os.path.join(src, v['demo']), os.path.join(d, demo + '.txt'))
meta = {
 'property': nid.split('-')[0],
 'origin': 'independent sub-agent given only the property text and a scratch worktree (second round)',
 'summary': v.get('summary'), 'needs': v.get('needs'),
 'demo_file': demo + '.txt (rename to *_test.go and place in ' + v.get('demo_dir', 'index/') + ')',
 'demo_run': v.get('demo_run'), 'agent_ran': v.get('ran'),
 'confirmed_by_me': {'how': 'tools/confirm_seed.py in a fresh scratch worktree of /repo HEAD: demo without patch, demo with patch, full suite with patch (demo removed)',
   'demo_without_patch_rc': c['demo_without_patch']['rc'], 'demo_with_patch_rc': c['demo_with_patch']['rc'], 'suite_with_patch_rc': c['suite_with_patch']['rc'],
   'confirmed': True, 'demo_with_patch_tail': c['demo_with_patch']['tail'][-700:]},
 'detected_by': det, 'missed_at_first': missed,
 'check_cmd': 'tools/seedall.sh /verif/seeded/%s/patch.diff' % nid,
}
json.dump(meta, open(os.path.join(d, 'meta.json'), 'w'), indent=1)
print('imported', nid)
