#!/bin/bash
# usage: seedtest.sh <patch.diff> <property>...   applies the patch to /repo, runs the quick checks, reverts.
patch=$1; shift
git -C /repo apply "$patch" || { echo "PATCH DOES NOT APPLY"; exit 2; }
for p in "$@"; do
  out=$(/verif/bin/verifcheck -property $p 2>&1)
  echo "$out" | grep -E "^VIOLATION|construct:|^  [a-z]|HELD|VIOLATED|UNDECIDED|UNDEC" | cut -c1-400
done
git -C /repo checkout -- .
git -C /repo status --short | head -3
