#!/bin/bash
# Applies every behaviour-preserving refactoring in /verif/refactors to /repo in turn, runs every property's
# quick check, reverts. Every variant must come out HELD: anything else is a false alarm of the checker.
# Do not run while another check reads /repo.
bad=0
for f in /verif/refactors/*.diff; do
  out=$(/verif/tools/seedall.sh "$f" 2>&1 | grep -E "VIOLATED|UNDECIDED|NOT APPLY" | cut -c1-200)
  if [ -n "$out" ]; then echo "FALSE ALARM on $(basename $f): $out"; bad=1; else echo "silent on $(basename $f)"; fi
done
exit $bad
