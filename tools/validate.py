#!/opt/veriftools/pyvenv/bin/python
import json, jsonschema, sys, glob
m=json.load(open('/verif/MANIFEST.json')); s=json.load(open('/root/.vp/MANIFEST.schema.json')); jsonschema.validate(m,s)
print('manifest ok; claimed:', [c['property_id'] for c in m['checks']], 'n/a:', [c['property_id'] for c in m.get('not_applicable',[])])
es=json.load(open('/root/.vp/EVIDENCE.schema.json'))
for c in m['checks']:
    try:
        e=json.load(open('/verif/'+c['evidence_file'])); jsonschema.validate(e,es)
    except Exception as ex:
        print('EVIDENCE PROBLEM', c['property_id'], str(ex)[:200])
