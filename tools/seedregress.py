#!/usr/bin/env python3
"""Applies every stored seeded change to /repo in turn, runs all checks, reverts, and records in
seeded/<id>/meta.json which rules reported it (reported_by_rules) and which properties' checks
exited with a violation (reported_by_checks). Prints MISSED for a change that is expected to be
reported (detected_by non-empty) and is not. Do not run while another check reads /repo."""
import json, os, re, subprocess, sys
bad = 0
for sid in sorted(os.listdir('/verif/seeded')):
    d = os.path.join('/verif/seeded', sid)
    patch = os.path.join(d, 'patch.diff')
    if not os.path.isfile(patch):
        continue
    a = subprocess.run(['git', '-C', '/repo', 'apply', patch], capture_output=True, text=True)
    if a.returncode != 0:
        a = subprocess.run(['git', '-C', '/repo', 'apply', '-3', patch], capture_output=True, text=True)
        subprocess.run(['git', '-C', '/repo', 'reset', '-q'])
        if a.returncode != 0:
            print(sid, 'PATCH DOES NOT APPLY'); bad = 1
            subprocess.run(['git', '-C', '/repo', 'checkout', '--', '.'])
            continue
    out = subprocess.run(['/verif/bin/verifcheck', '-all'], capture_output=True, text=True, errors='replace').stdout
    subprocess.run(['git', '-C', '/repo', 'checkout', '--', '.'])
    rules = sorted(set(re.findall(r'^  rule (C\d+\.R\d+)', out, re.M)))
    checks = sorted(set(re.findall(r'^(C\d+) VIOLATED', out, re.M)))
    undec = sorted(set(re.findall(r'^(C\d+) UNDECIDED', out, re.M)))
    mp = os.path.join(d, 'meta.json')
    m = json.load(open(mp))
    m['reported_by_rules'] = rules
    m['reported_by_checks'] = checks
    if undec:
        m['undecided_checks'] = undec
    json.dump(m, open(mp, 'w'), indent=1)
    expected = bool(m.get('detected_by'))
    status = 'reported' if checks else ('undecided-only' if undec else 'not reported')
    flag = ''
    if expected and not checks:
        flag = '  <-- MISSED'; bad = 1
    if not expected and checks:
        flag = '  (now reported)'
    print(f'{sid}: {status} {",".join(rules)}{flag}')
sys.exit(bad)
