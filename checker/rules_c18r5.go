package main

import (
	"fmt"
	"go/token"
	"go/types"
	"strings"

	"golang.org/x/tools/go/ssa"
)

// C18.R5: indexing from the end. `x[len(x)-k]` and `x[:len(x)-k]` need len(x) >= k. The
// stemmers shorten a rune slice step by step (`x = x[:len(x)-1]`), so the bound must be
// carried along: a forward lower-bound analysis over SSA values,
//   lb(v) at a block = max( guards on v that dominate the block,
//                          lb(w) - j            if v = w[:len(w)-j] or w[j:],
//                          min over the edges    if v is a phi,
//                          ... )
// A site is discharged when lb(x) >= k at the site. No solver: a monotone computation over
// the dominator tree with a depth bound; whatever it cannot bound is reported.

func init() {
	registerRule(&RuleInfo{ID: "C18.R5", Title: "indexing from the end of a slice is covered by a length bound", Floor: 50, Run: ruleC18R5,
		Covers: "every x[len(x)-k] and x[..:len(x)-k] in the analysis packages"})
}

type lbCtx struct {
	fn   *ssa.Function
	memo map[string]int64
	busy map[string]bool
}

// lenPaired: the integer value n always equals len(x): n is len(x) itself, or n and x are
// phis of the same block whose incoming values are pairwise paired (the idiom
// `x = x[:n-k]; n = len(x)` carried through branches and loops).
func lenPaired(n, x ssa.Value, seen map[[2]ssa.Value]bool) bool {
	if n == nil || x == nil {
		return false
	}
	if b := lenOfValue(n); b != nil && b == x {
		return true
	}
	k := [2]ssa.Value{n, x}
	if seen[k] {
		return true
	}
	pn, ok1 := n.(*ssa.Phi)
	px, ok2 := x.(*ssa.Phi)
	if !ok1 || !ok2 || pn.Block() != px.Block() || len(pn.Edges) != len(px.Edges) {
		return false
	}
	seen[k] = true
	for i := range pn.Edges {
		if !lenPaired(pn.Edges[i], px.Edges[i], seen) {
			return false
		}
	}
	return true
}

// lenTermOf: v == len(x) - k for the given x (k >= 0), where len(x) may be a local paired with x.
func lenTermOf(v, x ssa.Value) (k int64, ok bool) {
	if lenPaired(v, x, map[[2]ssa.Value]bool{}) {
		return 0, true
	}
	bo, isB := v.(*ssa.BinOp)
	if !isB || bo.Op != token.SUB {
		return 0, false
	}
	c, okc := constInt(bo.Y)
	if !okc {
		return 0, false
	}
	if k1, ok1 := lenTermOf(bo.X, x); ok1 {
		return k1 + c, true
	}
	return 0, false
}

func lenOfValue(v ssa.Value) ssa.Value {
	if call, ok := v.(*ssa.Call); ok && builtinName(call.Common()) == "len" && len(call.Common().Args) == 1 {
		return call.Common().Args[0]
	}
	return nil
}

// lenMinusConst: v == len(base) - k  (k >= 0); also len(base) itself (k = 0).
func lenMinusConst(v ssa.Value) (base ssa.Value, k int64, ok bool) {
	if b := lenOfValue(v); b != nil {
		return b, 0, true
	}
	bo, isB := v.(*ssa.BinOp)
	if !isB {
		return nil, 0, false
	}
	if bo.Op == token.SUB {
		if b := lenOfValue(bo.X); b != nil {
			if c, okc := constInt(bo.Y); okc {
				return b, c, true
			}
		}
		// (len(x) - a) - b
		if b, k1, ok1 := lenMinusConst(bo.X); ok1 {
			if c, okc := constInt(bo.Y); okc {
				return b, k1 + c, true
			}
		}
	}
	return nil, 0, false
}

// guardFacts: lower bound on len(v) implied by If conditions whose edge dominates blk.
// Conditions: len(v) OP c, and n OP c where n := len(v) is a local.
func (l *lbCtx) guardFacts(v ssa.Value, blk *ssa.BasicBlock) int64 {
	var best int64
	for _, f := range condFactsAt(l.fn, blk, 0) {
		b, ok := f.cond.(*ssa.BinOp)
		if !ok {
			continue
		}
		var op token.Token
		var cst int64
		matched := false
		if k, ok := lenTermOf(b.X, v); ok {
			if c, okc := constInt(b.Y); okc {
				op, cst, matched = b.Op, c+k, true
			}
		} else if k, ok := lenTermOf(b.Y, v); ok {
			if c, okc := constInt(b.X); okc {
				flip := map[token.Token]token.Token{token.LSS: token.GTR, token.GTR: token.LSS, token.LEQ: token.GEQ, token.GEQ: token.LEQ, token.EQL: token.EQL, token.NEQ: token.NEQ}
				op, cst, matched = flip[b.Op], c+k, true
			}
		}
		// p < len(v) with p a non-negative index: len(v) >= 1
		if !matched {
			if k, ok := lenTermOf(b.Y, v); ok && k == 0 && (nonnegIndex(l.fn, b.X) || usedAsLowBoundBefore(l.fn, b.X, blk)) {
				switch b.Op {
				case token.LSS:
					op, cst, matched = token.GTR, 0, true
				case token.GEQ:
					op, cst, matched = token.LEQ, 0, true
				}
			}
		}
		if !matched {
			continue
		}
		lo, _ := factOnEdge(op, cst, f.edge)
		if lo > best {
			best = lo
		}
	}
	return best
}

// condFact: the boolean value cond is known true (edge 0) / false (edge 1) at a block.
type condFact struct {
	cond ssa.Value
	edge int
}

// condFactsAt: conditions decided on every path to blk: the conditions of the Ifs whose edge
// dominates blk, and, where such a condition is the phi go/ssa builds for `a && b` / `a || b`
// used as a value (the cases of a tagless switch), the conjuncts behind it: a short-circuit
// phi that is true has all-false constants on its other edges, so control came through the
// block that evaluated the last conjunct, and everything decided at that block holds too.
func condFactsAt(fn *ssa.Function, blk *ssa.BasicBlock, depth int) []condFact {
	var rv []condFact
	if depth > 6 {
		return rv
	}
	var expand func(cond ssa.Value, edge int, d int)
	expand = func(cond ssa.Value, edge int, d int) {
		rv = append(rv, condFact{cond, edge})
		if d > 6 {
			return
		}
		if u, ok := cond.(*ssa.UnOp); ok && u.Op == token.NOT {
			expand(u.X, 1-edge, d+1)
			return
		}
		phi, ok := cond.(*ssa.Phi)
		if !ok {
			return
		}
		// the only way the phi can have the value we know it has
		want := edge == 0 // true?
		nonConst := -1
		for i, e := range phi.Edges {
			if cb, isC := constBool(e); isC {
				if cb == want {
					return // a constant edge also yields this value: nothing more is known
				}
				continue
			}
			if nonConst >= 0 {
				return
			}
			nonConst = i
		}
		if nonConst < 0 {
			return
		}
		expand(phi.Edges[nonConst], edge, d+1)
		pred := phi.Block().Preds[nonConst]
		rv = append(rv, condFactsAt(fn, pred, depth+1)...)
	}
	eachInstr(fn, func(in ssa.Instruction) {
		iff, ok := in.(*ssa.If)
		if !ok {
			return
		}
		for edge := 0; edge < 2; edge++ {
			if edgeDominates(iff, edge, blk) {
				expand(iff.Cond, edge, 0)
			}
		}
	})
	return rv
}

func sameValueSSA(a, b ssa.Value) bool {
	if a == b {
		return true
	}
	// two loads of the same local cell with no store in between are not tracked: only identity
	return false
}

func (l *lbCtx) lb(v ssa.Value, blk *ssa.BasicBlock, depth int) int64 {
	if v == nil || depth > 12 {
		return 0
	}
	key := fmt.Sprintf("%p@%d", v, blk.Index)
	if r, ok := l.memo[key]; ok {
		return r
	}
	if l.busy[key] {
		return 1 << 30 // a cycle contributes nothing new: neutral for min()
	}
	l.busy[key] = true
	defer delete(l.busy, key)
	best := l.guardFacts(v, blk)
	var structural int64
	switch x := v.(type) {
	case *ssa.Slice:
		defBlk := x.Block()
		lowK := int64(0)
		if x.Low != nil {
			if c, ok := constInt(x.Low); ok {
				lowK = c
			} else {
				lowK = -1
			}
		}
		switch {
		case x.High == nil && lowK >= 0:
			structural = l.lb(x.X, defBlk, depth+1) - lowK
		case x.High != nil:
			if k, ok := lenTermOf(x.High, x.X); ok && lowK >= 0 {
				structural = l.lb(x.X, defBlk, depth+1) - k - lowK
			} else if c, ok := constInt(x.High); ok && lowK >= 0 {
				structural = c - lowK
			}
		}
	case *ssa.Phi:
		m := int64(1 << 30)
		for i, e := range x.Edges {
			pb := x.Block().Preds[i]
			if r := l.lb(e, pb, depth+1); r < m {
				m = r
			}
		}
		if m == 1<<30 {
			m = 0
		}
		structural = m
	case *ssa.Call:
		if builtinName(x.Common()) == "append" {
			structural = l.lb(x.Common().Args[0], x.Block(), depth+1)
		} else if callee := x.Common().StaticCallee(); callee != nil && callee.Blocks != nil {
			// a helper that returns its argument, possibly shortened by a constant (trimLastIf(x, r))
			if pk, delta, ok := shorteningSummary(callee); ok && pk < len(x.Common().Args) {
				structural = l.lb(x.Common().Args[pk], x.Block(), depth+1) - delta
			}
		}
	case *ssa.Parameter:
		// what every static call site of the function guarantees for this parameter
		structural = paramLowerBound(x, depth)
	case *ssa.Convert:
		// []rune(string) etc.: nothing known
	case *ssa.MakeSlice:
		if c, ok := constInt(x.Len); ok {
			structural = c
		}
	}
	if structural >= 1<<29 {
		structural = 0
	}
	if structural > best {
		best = structural
	}
	if best < 0 {
		best = 0
	}
	l.memo[key] = best
	return best
}

func ruleC18R5(c *Ctx) {
	theProgram = c.Program
	paramLBMemo = map[*ssa.Parameter]int64{}
	n := 0
	for _, fn := range analysisAllFuncs(c) {
		l := &lbCtx{fn: fn, memo: map[string]int64{}, busy: map[string]bool{}}
		eachInstr(fn, func(in ssa.Instruction) {
			var base, idx ssa.Value
			what := ""
			switch x := in.(type) {
			case *ssa.IndexAddr:
				base, idx, what = x.X, x.Index, "index"
			case *ssa.Index:
				base, idx, what = x.X, x.Index, "index"
			case *ssa.Slice:
				if x.High == nil {
					return
				}
				base, idx, what = x.X, x.High, "slice bound"
			default:
				return
			}
			if _, isSlice := base.Type().Underlying().(*types.Slice); !isSlice {
				if _, isStr := base.Type().Underlying().(*types.Basic); !isStr {
					return
				}
			}
			k, ok := lenTermOf(idx, base)
			if !ok || k <= 0 {
				return
			}
			n++
			key := fmt.Sprintf("%s len(x)-%d #%d in %s", what, k, n, FuncName(fn))
			have := l.lb(base, in.Block(), 0)
			c.Check(have >= k, key, c.Pos(in.Pos()), fmt.Sprintf("len(x) >= %d is established (bound %d)", k, have),
				fmt.Sprintf("nothing establishes len(x) >= %d here (best lower bound carried through the preceding guards and shortenings: %d): a token short enough reaches this line and the analyzer panics (index out of range)", k, have))
		})
	}
	_ = strings.HasPrefix
}

// nonnegIndex: v is non-negative by construction: a constant >= 0, a loop counter started at a
// non-negative value and only increased, such a value plus a constant, or a parameter that
// every static call site of the (unexported or exported) function fills with such a value.
func nonnegIndex(fn *ssa.Function, v ssa.Value) bool {
	var rec func(v ssa.Value, seen map[ssa.Value]bool, d int) bool
	rec = func(v ssa.Value, seen map[ssa.Value]bool, d int) bool {
		if seen[v] {
			return true
		}
		seen[v] = true
		if d > 6 {
			return false
		}
		switch x := v.(type) {
		case *ssa.Const:
			k, ok := constInt(x)
			return ok && k >= 0
		case *ssa.Phi:
			for _, e := range x.Edges {
				if !rec(e, seen, d) {
					return false
				}
			}
			return true
		case *ssa.BinOp:
			if x.Op == token.ADD {
				return rec(x.X, seen, d) && rec(x.Y, seen, d)
			}
			return false
		case *ssa.Call:
			return builtinName(x.Common()) == "len"
		case *ssa.Extract:
			// index of a range loop over a string / the key of a slice range is a phi; Next of a string range yields >= 0
			if nx, ok := x.Tuple.(*ssa.Next); ok && nx.IsString && x.Index == 1 {
				return true
			}
			return false
		case *ssa.Parameter:
			pf := x.Parent()
			idx := -1
			for i, p := range pf.Params {
				if p == x {
					idx = i
				}
			}
			if idx < 0 || theProgram == nil {
				return false
			}
			sites := 0
			okAll := true
			for _, g := range theProgram.SrcFuncs() {
				eachInstr(g, func(in ssa.Instruction) {
					cc := callOf(in)
					if cc == nil || cc.StaticCallee() != pf {
						return
					}
					sites++
					if idx >= len(cc.Args) || !rec(cc.Args[idx], map[ssa.Value]bool{}, d+1) {
						okAll = false
					}
				})
			}
			return okAll && sites > 0
		}
		return false
	}
	return rec(v, map[ssa.Value]bool{}, 0)
}

var theProgram *Program

// usedAsLowBoundBefore: p was already used as the low bound of a slice expression on every
// path to blk (x[p:] panics for a negative p, so p >= 0 holds afterwards).
func usedAsLowBoundBefore(fn *ssa.Function, p ssa.Value, blk *ssa.BasicBlock) bool {
	ok := false
	eachInstr(fn, func(in ssa.Instruction) {
		if sl, isSl := in.(*ssa.Slice); isSl && sl.Low == p && (sl.Block() == blk || sl.Block().Dominates(blk)) {
			ok = true
		}
	})
	return ok
}

// shorteningSummary: fn returns (on every return) its slice parameter pk itself or a prefix /
// suffix of it that is shorter by at most delta elements.
func shorteningSummary(fn *ssa.Function) (pk int, delta int64, ok bool) {
	if fn.Signature.Results().Len() != 1 {
		return 0, 0, false
	}
	if _, isSlice := fn.Signature.Results().At(0).Type().Underlying().(*types.Slice); !isSlice {
		return 0, 0, false
	}
	pk = -1
	var short func(v ssa.Value, seen map[ssa.Value]bool) (int64, bool)
	short = func(v ssa.Value, seen map[ssa.Value]bool) (int64, bool) {
		if seen[v] {
			return 0, true
		}
		seen[v] = true
		switch x := v.(type) {
		case *ssa.Parameter:
			for i, p := range fn.Params {
				if p == x {
					if pk >= 0 && pk != i {
						return 0, false
					}
					pk = i
					return 0, true
				}
			}
			return 0, false
		case *ssa.Phi:
			var m int64
			for _, e := range x.Edges {
				d, ok := short(e, seen)
				if !ok {
					return 0, false
				}
				if d > m {
					m = d
				}
			}
			return m, true
		case *ssa.Slice:
			d0, ok := short(x.X, seen)
			if !ok {
				return 0, false
			}
			lowK := int64(0)
			if x.Low != nil {
				c, okc := constInt(x.Low)
				if !okc {
					return 0, false
				}
				lowK = c
			}
			if x.High == nil {
				return d0 + lowK, true
			}
			if k, ok := lenTermOf(x.High, x.X); ok {
				return d0 + k + lowK, true
			}
			return 0, false
		}
		return 0, false
	}
	okAll := true
	eachInstr(fn, func(in ssa.Instruction) {
		r, isRet := in.(*ssa.Return)
		if !isRet || len(r.Results) != 1 {
			return
		}
		d, ok := short(r.Results[0], map[ssa.Value]bool{})
		if !ok {
			okAll = false
			return
		}
		if d > delta {
			delta = d
		}
	})
	return pk, delta, okAll && pk >= 0
}

var paramLBMemo = map[*ssa.Parameter]int64{}
var paramLBBusy = map[*ssa.Parameter]bool{}

// paramLowerBound: the smallest lower bound on len(p) that the static call sites of p's function
// establish for the argument (0 when the function is exported, has no static call site in the
// module, is called through a value, or the recursion is too deep).
func paramLowerBound(p *ssa.Parameter, depth int) int64 {
	if theProgram == nil || depth > 3 {
		return 0
	}
	if r, ok := paramLBMemo[p]; ok {
		return r
	}
	if paramLBBusy[p] {
		return 1 << 30
	}
	fn := p.Parent()
	if fn == nil || fn.Object() == nil || fn.Object().Exported() || fn.Parent() != nil {
		return 0
	}
	idx := -1
	for i, q := range fn.Params {
		if q == p {
			idx = i
		}
	}
	if idx < 0 {
		return 0
	}
	paramLBBusy[p] = true
	defer delete(paramLBBusy, p)
	best := int64(1 << 30)
	sites := 0
	addrTaken := false
	for _, g := range theProgram.SrcFuncs() {
		eachInstr(g, func(in ssa.Instruction) {
			for _, op := range in.Operands(nil) {
				if *op == ssa.Value(fn) {
					if cc := callOf(in); cc == nil || cc.Value != ssa.Value(fn) {
						addrTaken = true
					}
				}
			}
			call, ok := in.(*ssa.Call)
			if !ok || call.Common().StaticCallee() != fn {
				return
			}
			sites++
			if idx >= len(call.Common().Args) {
				best = 0
				return
			}
			lc := &lbCtx{fn: g, memo: map[string]int64{}, busy: map[string]bool{}}
			if r := lc.lb(call.Common().Args[idx], call.Block(), depth+1); r < best {
				best = r
			}
		})
	}
	if sites == 0 || addrTaken || best >= 1<<29 {
		best = 0
	}
	paramLBMemo[p] = best
	return best
}
