package main

import (
	"fmt"
	"go/types"
	"strings"

	"golang.org/x/tools/go/ssa"
)

func init() {
	registerProperty(&PropertyInfo{
		ID:    "C01",
		Title: "Batches apply atomically and exactly as the abstract index says",
		Rules: []string{"C01.R1", "C01.R2", "C01.R3", "C01.R4", "C06.R1", "C06.R2", "C06.R5", "C04.R2"},
		Decides: "shape conditions without which some history necessarily diverges from the abstract index: Update records both the id and the document, Delete only the id, Insert only the document, and the public Writer methods reach index.Writer.Batch through exactly these mutators; every segmentSnapshot literal that carries a segment of the current root over into a new root carries that root element's deleted set along (directly, or OR-ed with the new obsoletions; a nil deleted set only behind the IsEmpty test or on the edge where the old set is nil); no field or element of a Snapshot / segmentSnapshot is written unless the object was allocated in the same function (or is owned by such an object) and has not been published yet; a field value that may be stored is handed to an analyzer only as a fresh copy (in-place token filters would otherwise rewrite the stored bytes).",
		NotCovered: "that DocsMatchingTerms and the segment library compute the right document sets; counts and stored bytes; behaviour for a batch naming the same id twice.",
	})
	registerRule(&RuleInfo{ID: "C01.R1", Title: "Update = delete + insert, Delete = delete, Insert = insert", Floor: 4, Run: ruleC01R1,
		Covers: "data flow of the three index.Batch mutators and of the public bluge.Writer/Batch wrappers"})
	registerRule(&RuleInfo{ID: "C01.R2", Title: "deleted sets are carried over into every new root", Floor: 5, Run: ruleC01R2,
		Covers: "every composite literal of index.segmentSnapshot, classified by the origin of its id"})
	registerRule(&RuleInfo{ID: "C01.R3", Title: "published snapshots are frozen (copy-on-write)", Floor: 60, Run: ruleC01R3,
		Covers: "every store to a field or element of index.Snapshot / index.segmentSnapshot"})
}

// ---- R1 -----------------------------------------------------------------------------------

func ruleC01R1(c *Ctx) {
	fDocs := c.Field(pkgIndex, "Batch", "documents")
	fIDs := c.Field(pkgIndex, "Batch", "ids")
	type want struct{ docs, ids bool }
	wants := map[string]want{"Insert": {true, false}, "Update": {true, true}, "Delete": {false, true}}
	for _, name := range []string{"Insert", "Update", "Delete"} {
		fn := c.Method(pkgIndex, "Batch", name)
		w := wants[name]
		fromParam := func(v ssa.Value) bool {
			return dependsOn(v, func(y ssa.Value) bool {
				p, ok := y.(*ssa.Parameter)
				return ok && p != fn.Params[0]
			})
		}
		gotDocs, gotIDs := false, false
		for _, st := range storesToField(fn, fDocs) {
			if fromParam(st.Val) && dependsOnField(st.Val, fDocs) {
				gotDocs = true
			}
		}
		for _, st := range storesToField(fn, fIDs) {
			if fromParam(st.Val) && dependsOnField(st.Val, fIDs) {
				gotIDs = true
			}
		}
		c.Check(gotDocs == w.docs && gotIDs == w.ids, "index.Batch."+name+" records "+wantStr(w.docs, w.ids), c.Pos(fn.Pos()),
			"appends exactly the expected parameter(s) to documents/ids", fmt.Sprintf("appends to documents=%v ids=%v, expected documents=%v ids=%v", gotDocs, gotIDs, w.docs, w.ids))
	}
	// bluge.Writer.{Insert,Update,Delete,Batch} reach index.Writer.Batch
	idxBatch := c.Method(pkgIndex, "Writer", "Batch")
	for _, name := range []string{"Insert", "Update", "Delete", "Batch"} {
		fn := c.Method(modPath, "Writer", name)
		reaches := false
		var viaMut string
		eachInstr(fn, func(in ssa.Instruction) {
			ci, isCall := in.(*ssa.Call)
			if !isCall || ci.Common().StaticCallee() == nil {
				return
			}
			callee := ci.Common().StaticCallee()
			if callee == idxBatch || c.Light().Reach(callee)[idxBatch] {
				reaches = true
			}
			if callee.Signature.Recv() != nil && namedOf(callee.Signature.Recv().Type()) != nil && namedOf(callee.Signature.Recv().Type()).Obj().Name() == "Batch" &&
				(callee.Name() == "Insert" || callee.Name() == "Update" || callee.Name() == "Delete") {
				viaMut = callee.Name()
			}
		})
		ok := reaches && (name == "Batch" || viaMut == name)
		c.Check(ok, "bluge.Writer."+name+" applies one batch built by the matching mutator", c.Pos(fn.Pos()), "reaches index.Writer.Batch with a batch built by "+name,
			fmt.Sprintf("reaches index.Writer.Batch=%v, batch mutator used=%q", reaches, viaMut))
	}
}

func wantStr(d, i bool) string {
	switch {
	case d && i:
		return "id and document"
	case d:
		return "the document only"
	default:
		return "the id only"
	}
}

// ---- helpers on snapshots --------------------------------------------------------------------

// segElemPath: v is (a load of) an element of some Snapshot's segment slice; returns the element's access path.
func segElemPath(v ssa.Value, a *IdxAnchors) string {
	u, ok := isLoad(v)
	if !ok {
		return ""
	}
	ia, ok := u.X.(*ssa.IndexAddr)
	if !ok {
		return ""
	}
	if f, _ := loadedField(ia.X); f != a.SnapSegment {
		return ""
	}
	return accessPath(v)
}

// fieldStoresOfLiteral returns the stores to field fv of the literal al (within its function).
func fieldStoresOfLiteral(al *ssa.Alloc, fv *types.Var) []*ssa.Store {
	var rv []*ssa.Store
	if al.Referrers() == nil {
		return nil
	}
	for _, r := range *al.Referrers() {
		fa, ok := r.(*ssa.FieldAddr)
		if !ok || fieldVar(fa) != fv || fa.Referrers() == nil {
			continue
		}
		for _, rr := range *fa.Referrers() {
			if st, ok := rr.(*ssa.Store); ok && st.Addr == fa {
				rv = append(rv, st)
			}
		}
	}
	return rv
}

// edgeDominates: is block b executed only after the edge (iff -> iff.Succs[k]) was taken?
func edgeDominates(iff *ssa.If, k int, b *ssa.BasicBlock) bool {
	s := iff.Block().Succs[k]
	if !s.Dominates(b) {
		return false
	}
	for _, p := range s.Preds {
		if p != iff.Block() && !s.Dominates(p) {
			return false
		}
	}
	return true
}

// ---- R2 -----------------------------------------------------------------------------------

func ruleC01R2(c *Ctx) {
	a := c.Idx()
	n := 0
	for _, fn := range c.FuncsIn(pkgIndex) {
		eachInstr(fn, func(in ssa.Instruction) {
			al, ok := in.(*ssa.Alloc)
			if !ok || al.Comment != "complit" || namedOf(al.Type()) != a.SegSnap {
				return
			}
			if _, isPtr := al.Type().Underlying().(*types.Pointer); !isPtr {
				return
			}
			n++
			key := fmt.Sprintf("segmentSnapshot literal #%d in %s", n, FuncName(fn))
			pos := c.Pos(al.Pos())
			idStores := fieldStoresOfLiteral(al, a.SSID)
			delStores := fieldStoresOfLiteral(al, a.SSDeleted)
			if len(idStores) == 0 {
				c.Undecided(key, pos, "literal without an id")
				return
			}
			idVal := idStores[0].Val
			// carried: the id is the id of an element of a snapshot's segment list
			var elem string
			if f, base := loadedField(idVal); f == a.SSID {
				elem = segElemPath(base, a)
			}
			if elem == "" {
				// classify the non-carried kinds
				class := ""
				switch {
				case dependsOnField(idVal, c.Field(pkgIndex, "segmentIntroduction", "id")):
					class = "new segment of a batch"
					if len(delStores) != 0 {
						c.Violate(key+" ["+class+"]", pos, "a brand-new batch segment is published with a deleted set")
						return
					}
				case dependsOnField(idVal, c.Field(pkgIndex, "segmentMerge", "id")):
					class = "merged segment"
					// its deleted set must be the accumulator handed to the merge's per-segment processing
					okAcc := len(delStores) == 1 && isMergeAccumulator(fn, delStores[0].Val, a)
					c.Check(okAcc, key+" ["+class+"]", pos, "deleted is the bitmap threaded through the per-segment processing of the merge", "the merged segment's deleted set is not the accumulator of deletions that raced with the merge")
					return
				case funcInSet(fn, decoderFamily(c.Program)):
					class = "decoded from a snapshot file"
				case namedOf(recvType(fn)) != nil && namedOf(recvType(fn)).Obj().Name() == "WriterOffline":
					class = "offline build"
				default:
					// equivalent snapshot for persisting an in-memory merge: deleted must be absent/nil and the segment must come from a merge result
					allNil := true
					for _, st := range delStores {
						if !isNilConst(st.Val) {
							allNil = false
						}
					}
					segStores := fieldStoresOfLiteral(al, a.SSSegment)
					fromSnapshotElem := len(segStores) == 1 && dependsOn(segStores[0].Val, func(y ssa.Value) bool {
						return segElemPath(y, a) != ""
					})
					if allNil && fromSnapshotElem {
						class = "merged-for-persist equivalent"
					} else if fromSnapshotElem {
						// a segment taken from an element of another snapshot under a new id: the equivalent of the
						// snapshot being persisted. The merge already dropped what was deleted at that epoch; a deleted
						// set taken from anywhere else belongs to a later root
						c.Violate(key+" [merged-for-persist equivalent]", pos, "the stand-in for the merged segments in the snapshot being persisted carries a deleted set: the file written for that epoch then contains deletions of later batches without their insertions (not a prefix of the batch order)")
						return
					} else {
						c.Undecided(key, pos, "cannot classify the origin of this segmentSnapshot literal")
						return
					}
				}
				c.OK(key+" ["+class+"]", pos, "not carried over from a root")
				return
			}
			// carried / replacement of a carried element: deleted must derive from that element's deleted
			if len(delStores) == 0 {
				c.Violate(key+" [carried]", pos, "a segment of the current root is carried into a new snapshot without its deleted set: earlier deletions are resurrected")
				return
			}
			var problems []string
			fromElemDeleted := func(v ssa.Value) bool {
				return dependsOn(v, func(y ssa.Value) bool {
					f, base := loadedField(y)
					return f == a.SSDeleted && accessPath(base) == elem
				})
			}
			for _, st := range delStores {
				switch {
				case fromElemDeleted(st.Val):
				case isNilConst(st.Val):
					if !dominatedByIsEmpty(st, al, a) {
						problems = append(problems, "deleted is reset to nil at "+c.Pos(st.Pos())+" without the IsEmpty test")
					}
				default:
					if !dominatedByNilEdgeOf(st.Block(), elem, a) {
						problems = append(problems, "deleted is stored at "+c.Pos(st.Pos())+" from a value that does not include the root element's deleted set, on an edge where that set is not known to be nil")
					}
				}
			}
			c.Check(len(problems) == 0, key+" [carried]", pos, "every store to deleted derives from the carried element's deleted set (or sits on its nil edge / behind IsEmpty)", uniqJoin(problems))
		})
	}
}

func recvType(fn *ssa.Function) types.Type {
	fn = enclosingTop(fn)
	if fn.Signature.Recv() == nil {
		return types.Typ[types.Invalid]
	}
	return fn.Signature.Recv().Type()
}

func funcInSet(fn *ssa.Function, set []*ssa.Function) bool {
	for _, f := range set {
		if f == fn {
			return true
		}
	}
	return false
}

// isMergeAccumulator: v is passed, in fn, as a *roaring.Bitmap argument to a method of segmentMerge.
func isMergeAccumulator(fn *ssa.Function, v ssa.Value, a *IdxAnchors) bool {
	ok := false
	eachInstr(fn, func(in ssa.Instruction) {
		ci, isCall := in.(*ssa.Call)
		if !isCall || ci.Common().StaticCallee() == nil {
			return
		}
		callee := ci.Common().StaticCallee()
		if callee.Signature.Recv() == nil || namedOf(callee.Signature.Recv().Type()) != a.SegMerge {
			return
		}
		for _, arg := range ci.Common().Args[1:] {
			if arg == v {
				ok = true
			}
		}
	})
	return ok
}

// dominatedByIsEmpty: the store is on the true edge of `<literal>.deleted.IsEmpty()`.
func dominatedByIsEmpty(st *ssa.Store, al *ssa.Alloc, a *IdxAnchors) bool {
	ok := false
	eachInstr(st.Parent(), func(in ssa.Instruction) {
		iff, isIf := in.(*ssa.If)
		if !isIf {
			return
		}
		call, isCall := iff.Cond.(*ssa.Call)
		if !isCall || call.Common().StaticCallee() == nil || call.Common().StaticCallee().Name() != "IsEmpty" {
			return
		}
		f, base := loadedField(call.Common().Args[0])
		if f == a.SSDeleted && base == ssa.Value(al) && edgeDominates(iff, 0, st.Block()) {
			ok = true
		}
	})
	return ok
}

// dominatedByNilEdgeOf: block b lies on the edge where <elem>.deleted == nil.
func dominatedByNilEdgeOf(b *ssa.BasicBlock, elem string, a *IdxAnchors) bool {
	ok := false
	eachInstr(b.Parent(), func(in ssa.Instruction) {
		iff, isIf := in.(*ssa.If)
		if !isIf {
			return
		}
		bo, isBin := iff.Cond.(*ssa.BinOp)
		if !isBin {
			return
		}
		var other ssa.Value
		if isNilConst(bo.Y) {
			other = bo.X
		} else if isNilConst(bo.X) {
			other = bo.Y
		} else {
			return
		}
		f, base := loadedField(other)
		if f != a.SSDeleted || accessPath(base) != elem {
			return
		}
		k := 0 // true edge for ==
		if bo.Op.String() == "!=" {
			k = 1
		} else if bo.Op.String() != "==" {
			return
		}
		if edgeDominates(iff, k, b) {
			ok = true
		}
	})
	return ok
}

// ---- R3 -----------------------------------------------------------------------------------

// isFreshOwned: v is fresh, or an element/field loaded from a fresh object (owned by it).
func isFreshOwned(v ssa.Value, depth int) bool {
	if depth > 6 {
		return false
	}
	if isFreshLocal(v) {
		return true
	}
	switch x := v.(type) {
	case *ssa.UnOp:
		if u, ok := isLoad(x); ok {
			switch ad := u.X.(type) {
			case *ssa.IndexAddr:
				return isFreshOwned(ad.X, depth+1)
			case *ssa.FieldAddr:
				return isFreshOwned(ad.X, depth+1)
			}
		}
	case *ssa.Phi:
		for _, e := range x.Edges {
			if !isFreshOwned(e, depth+1) {
				return false
			}
		}
		return true
	case *ssa.Extract:
		// range over a fresh slice / result of append on fresh
		return false
	case *ssa.Call:
		if builtinName(x.Common()) == "append" {
			return isFreshOwned(x.Common().Args[0], depth+1)
		}
	case *ssa.Slice:
		return isFreshOwned(x.X, depth+1)
	}
	return false
}

func ruleC01R3(c *Ctx) {
	a := c.Idx()
	g := c.Light()
	exempt := map[string]bool{"refs": true, "fieldTFRs": true, "m": true, "m2": true}
	isSnapField := func(fv *types.Var) bool {
		if fv == nil || exempt[fv.Name()] {
			return false
		}
		for _, n := range []*types.Named{a.Snapshot, a.SegSnap} {
			st := n.Underlying().(*types.Struct)
			for i := 0; i < st.NumFields(); i++ {
				if st.Field(i) == fv {
					return true
				}
			}
		}
		return false
	}
	// receiverFresh: every caller passes a fresh(-owned) receiver (two interprocedural steps)
	var receiverFresh func(fn *ssa.Function, depth int) (bool, string)
	receiverFresh = func(fn *ssa.Function, depth int) (bool, string) {
		callers := g.Callers(fn)
		if len(callers) == 0 {
			return true, "no caller in the repository"
		}
		for _, cs := range callers {
			args := cs.Instr.Common().Args
			if cs.Instr.Common().IsInvoke() || len(args) == 0 {
				return false, "called through an interface in " + FuncName(cs.Caller)
			}
			recv := args[0]
			if isFreshOwned(recv, 0) {
				if published(recv, cs.Instr, a) {
					return false, "called in " + FuncName(cs.Caller) + " after the receiver was published"
				}
				continue
			}
			if p, ok := recv.(*ssa.Parameter); ok && len(cs.Caller.Params) > 0 && p == cs.Caller.Params[0] && depth < 3 {
				if ok2, why := receiverFresh(cs.Caller, depth+1); ok2 {
					continue
				} else {
					return false, why
				}
			}
			return false, "called in " + FuncName(cs.Caller) + " on an object that is not freshly allocated there"
		}
		return true, ""
	}
	n := 0
	for _, fn := range c.FuncsIn(pkgIndex) {
		eachInstr(fn, func(in ssa.Instruction) {
			st, ok := in.(*ssa.Store)
			if !ok {
				return
			}
			var owner ssa.Value
			var what string
			switch ad := st.Addr.(type) {
			case *ssa.FieldAddr:
				fv := fieldVar(ad)
				if !isSnapField(fv) {
					return
				}
				owner, what = ad.X, fv.Name()
			case *ssa.IndexAddr:
				f, base := loadedField(ad.X)
				if !isSnapField(f) {
					return
				}
				owner, what = base, f.Name()+"[i]"
			default:
				return
			}
			n++
			key := fmt.Sprintf("store #%d to %s.%s in %s", n, typeShort(owner.Type()), what, FuncName(fn))
			pos := c.Pos(st.Pos())
			switch {
			case isFreshOwned(owner, 0):
				if published(owner, st, a) {
					c.Violate(key, pos, "the object is written after it was handed to the root swap / sent on a channel: readers holding it see it change")
				} else {
					c.OK(key, pos, "object allocated in this function and not yet published")
				}
			case isReceiverParam(owner, fn):
				okR, why := receiverFresh(fn, 0)
				c.Check(okR, key, pos, "mutating method only ever invoked on freshly allocated, unpublished objects", "mutating method "+FuncName(fn)+" is "+why)
			default:
				c.Violate(key, pos, "a field of a snapshot that was not allocated here is written in place: an open Reader holding that snapshot sees the change (snapshots must be copy-on-write)")
			}
		})
	}
}

func typeShort(t types.Type) string {
	s := t.String()
	s = strings.ReplaceAll(s, modPath+"/", "")
	return strings.TrimPrefix(s, "*")
}

func isReceiverParam(v ssa.Value, fn *ssa.Function) bool {
	p, ok := v.(*ssa.Parameter)
	return ok && fn.Signature.Recv() != nil && len(fn.Params) > 0 && fn.Params[0] == p
}

// published: can a publication of obj (argument of the root swap, channel send) reach instruction at?
func published(obj ssa.Value, at ssa.Instruction, a *IdxAnchors) bool {
	fn := at.Parent()
	same := func(v ssa.Value) bool {
		if v == obj {
			return true
		}
		ap := accessPath(obj)
		return ap != "" && ap == accessPath(v)
	}
	pub := false
	eachInstr(fn, func(in ssa.Instruction) {
		if pub || in == at {
			return
		}
		switch x := in.(type) {
		case *ssa.Send:
			if same(x.X) && reachesInstr(in, at) {
				pub = true
			}
		case *ssa.Call:
			callee := x.Common().StaticCallee()
			if callee == nil || !isRootSwapper(callee, a) {
				return
			}
			for _, arg := range x.Common().Args {
				if same(arg) && reachesInstr(in, at) {
					pub = true
				}
			}
		}
	})
	return pub
}
