package main

import (
	"fmt"
	"go/constant"
	"go/token"
	"go/types"

	"golang.org/x/tools/go/ssa"
)

const pkgNumeric = modPath + "/numeric"
const pkgSearcher = modPath + "/search/searcher"

func init() {
	registerProperty(&PropertyInfo{
		ID:    "C10",
		Title: "Numeric encoding preserves order; range decomposition is exact",
		Rules: []string{"C10.R1", "C10.R2", "C10.R3", "C10.R4", "C08.R7"},
		Decides: "table agreement between the index-time and the query-time side, and between encoder and decoder (narrow claim): the precision step handed to every range decomposition equals the shift step of the numeric and date-time field analyzers, and every geo searcher is built with the same precision-step variable the geo field uses; Float64ToInt64 and Int64ToFloat64 flip with the same mask under a sign test of the INTEGER bit pattern; the prefix coder and its decoders use the same sign-flip constant, the same 7-bit group (mask and both shifts), the same shift-start byte and the same length formula; the range decomposition guards its bound arithmetic against wrap-around (a comparison of the advanced bound with the bound it came from decides the loop exit). the union of a range's term bitmaps covers all of them (C08.R7).",
		NotCovered: "that the encoding is an order embedding over all 2^64 values and that the decomposition is exact for every interval (arithmetic, not shape).",
	})
	registerRule(&RuleInfo{ID: "C10.R1", Title: "index-time and query-time precision steps agree", Floor: 3, Run: ruleC10R1,
		Covers: "constants/variables handed to the field analyzers vs. to splitInt64Range and the geo searchers"})
	registerRule(&RuleInfo{ID: "C10.R2", Title: "encoder and decoder share their constants", Floor: 4, Run: ruleC10R2,
		Covers: "masks, shifts and offsets of numeric/float.go and numeric/prefix_coded.go"})
	registerRule(&RuleInfo{ID: "C10.R3", Title: "range decomposition guards against int64 wrap-around", Floor: 2, Run: ruleC10R3,
		Covers: "bound arithmetic of the function that splits an int64 interval into prefix ranges"})
}

func constUint(p *Program, pkg, name string) (uint64, bool) {
	o := p.TypesPkg(pkg).Scope().Lookup(name)
	cst, ok := o.(*types.Const)
	if !ok {
		return 0, false
	}
	v, ok := constant.Uint64Val(cst.Val())
	return v, ok
}

func ruleC10R1(c *Ctx) {
	numStep, ok1 := constUint(c.Program, modPath, "defaultNumericPrecisionStep")
	dateStep, ok2 := constUint(c.Program, modPath, "defaultDateTimePrecisionStep")
	if !ok1 || !ok2 {
		panic(unresolvedAnchor{"defaultNumericPrecisionStep/defaultDateTimePrecisionStep"})
	}
	// the field constructors really use these constants as shiftBy
	fShift := c.Field(modPath, "numericAnalyzer", "shiftBy")
	var stored []uint64
	geoVar := c.TypesPkg(modPath).Scope().Lookup("geoPrecisionStep")
	geoStoredFromVar := false
	for _, fn := range c.FuncsIn(modPath) {
		for _, st := range storesToField(fn, fShift) {
			if k, ok := constInt(st.Val); ok {
				stored = append(stored, uint64(k))
			} else if u, ok := isLoad(st.Val); ok {
				if g, ok := u.X.(*ssa.Global); ok && g.Object() == geoVar {
					geoStoredFromVar = true
				}
			}
		}
	}
	// every range decomposition call
	n := 0
	for _, fn := range c.FuncsIn(pkgSearcher) {
		eachInstr(fn, func(in ssa.Instruction) {
			call, ok := in.(*ssa.Call)
			if !ok || call.Common().StaticCallee() == nil || !isRangeSplitter(call.Common().StaticCallee()) {
				return
			}
			n++
			k, isC := constInt(call.Common().Args[2])
			okStep := isC && uint64(k) == numStep && uint64(k) == dateStep
			for _, s := range stored {
				if isC && s != uint64(k) {
					okStep = false
				}
			}
			c.Check(okStep, fmt.Sprintf("precision step of range decomposition #%d in %s", n, FuncName(fn)), c.Pos(in.Pos()),
				fmt.Sprintf("step %d = numeric field step %d = date field step %d", k, numStep, dateStep),
				fmt.Sprintf("the range query decomposes with step %v but numbers are indexed with step %d and dates with step %d: the generated prefix terms do not exist in the index", call.Common().Args[2], numStep, dateStep))
		})
	}
	if n == 0 {
		c.Violate("range decomposition call", "-", "no call of the int64 range splitter found")
	}
	c.Check(len(stored) >= 2, "numeric and date analyzers take their shift from the precision constants", "-", fmt.Sprintf("stored shiftBy constants %v", stored), "field constructors do not store constant shift steps")
	// geo: field construction and every searcher construction use the same variable
	c.Check(geoStoredFromVar, "geo point fields are indexed with geoPrecisionStep", "-", "shiftBy: geoPrecisionStep", "geo fields are not indexed with the shared geoPrecisionStep variable")
	ng := 0
	for _, fn := range c.FuncsIn(modPath) {
		eachInstr(fn, func(in ssa.Instruction) {
			call, ok := in.(*ssa.Call)
			if !ok || call.Common().StaticCallee() == nil || funcPkgPath(call.Common().StaticCallee()) != pkgSearcher {
				return
			}
			callee := call.Common().StaticCallee()
			for i, prm := range callee.Params {
				if prm.Name() != "precisionStep" || i >= len(call.Common().Args) {
					continue
				}
				ng++
				arg := call.Common().Args[i]
				okGeo := false
				if u, ok := isLoad(arg); ok {
					if g, ok := u.X.(*ssa.Global); ok && g.Object() == geoVar {
						okGeo = true
					}
				}
				c.Check(okGeo, fmt.Sprintf("geo searcher #%d built with the field's precision step in %s", ng, FuncName(fn)), c.Pos(in.Pos()), "precisionStep: geoPrecisionStep", "a geo searcher is built with a precision step other than the one geo points are indexed with")
			}
		})
	}
}

// isRangeSplitter: func(int64, int64, uint) returning a slice, in the searcher package.
func isRangeSplitter(f *ssa.Function) bool {
	if funcPkgPath(f) != pkgSearcher || f.Signature.Recv() != nil || f.Signature.Params().Len() != 3 || f.Signature.Results().Len() != 1 {
		return false
	}
	ps := f.Signature.Params()
	b0, ok0 := ps.At(0).Type().Underlying().(*types.Basic)
	b1, ok1 := ps.At(1).Type().Underlying().(*types.Basic)
	b2, ok2 := ps.At(2).Type().Underlying().(*types.Basic)
	_, isSlice := f.Signature.Results().At(0).Type().Underlying().(*types.Slice)
	return isSlice && ok0 && ok1 && ok2 && b0.Kind() == types.Int64 && b1.Kind() == types.Int64 && b2.Kind() == types.Uint
}

// constsOfOp collects the constant operands of binary operations op in fn.
func constsOfOp(fn *ssa.Function, op token.Token) []string {
	var rv []string
	eachInstr(fn, func(in ssa.Instruction) {
		b, ok := in.(*ssa.BinOp)
		if !ok || b.Op != op {
			return
		}
		for _, o := range []ssa.Value{b.X, b.Y} {
			if cst, ok := o.(*ssa.Const); ok && cst.Value != nil {
				rv = append(rv, cst.Value.ExactString())
			}
		}
	})
	return rv
}

func sameSet(a, b []string) bool {
	m := map[string]bool{}
	for _, x := range a {
		m[x] = true
	}
	n := map[string]bool{}
	for _, x := range b {
		n[x] = true
	}
	if len(m) != len(n) {
		return false
	}
	for k := range m {
		if !n[k] {
			return false
		}
	}
	return true
}

func ruleC10R2(c *Ctx) {
	f2i := c.Func(pkgNumeric, "Float64ToInt64")
	i2f := c.Func(pkgNumeric, "Int64ToFloat64")
	// same XOR mask
	m1, m2 := constsOfOp(f2i, token.XOR), constsOfOp(i2f, token.XOR)
	c.Check(len(m1) == 1 && sameSet(m1, m2), "float<->int64 use the same flip mask", c.Pos(f2i.Pos()), fmt.Sprintf("mask %v", m1), fmt.Sprintf("Float64ToInt64 flips with %v, Int64ToFloat64 with %v", m1, m2))
	// the sign test is on the integer bit pattern, in both directions
	for _, fn := range []*ssa.Function{f2i, i2f} {
		ok := false
		eachInstr(fn, func(in ssa.Instruction) {
			iff, isIf := in.(*ssa.If)
			if !isIf {
				return
			}
			b, isBin := iff.Cond.(*ssa.BinOp)
			if !isBin || b.Op != token.LSS {
				return
			}
			bt, isBasic := b.X.Type().Underlying().(*types.Basic)
			if k, okc := constInt(b.Y); okc && k == 0 && isBasic && bt.Kind() == types.Int64 {
				ok = true
			}
		})
		c.Check(ok, "sign test on the integer bit pattern in "+FuncName(fn), c.Pos(fn.Pos()), "if bits < 0 (int64)", "the flip is not decided by the sign bit of the integer pattern (e.g. by a floating point comparison, which is false for -0 and NaN): -0 and negative NaNs are encoded out of order")
	}
	// prefix coding
	enc := c.Func(pkgNumeric, "NewPrefixCodedInt64Prealloc")
	decI := c.Method(pkgNumeric, "PrefixCoded", "Int64")
	decS := c.Method(pkgNumeric, "PrefixCoded", "Shift")
	valid := c.Func(pkgNumeric, "ValidPrefixCodedTermBytes")
	x1, x2 := constsOfOp(enc, token.XOR), constsOfOp(decI, token.XOR)
	c.Check(len(x1) == 1 && sameSet(x1, x2), "prefix coder and decoder use the same sign-flip constant", c.Pos(enc.Pos()), fmt.Sprintf("%v", x1), fmt.Sprintf("encoder %v, decoder %v", x1, x2))
	// 7-bit groups
	encMask, encShr := constsOfOp(enc, token.AND), constsOfOp(enc, token.SHR)
	decShl := constsOfOp(decI, token.SHL)
	has := func(set []string, v string) bool {
		for _, s := range set {
			if s == v {
				return true
			}
		}
		return false
	}
	c.Check(has(encMask, "127") && has(encShr, "7") && has(decShl, "7"), "7-bit groups on both sides of the prefix coding", c.Pos(enc.Pos()), "mask 0x7f, >>7 when encoding, <<7 when decoding",
		fmt.Sprintf("encoder masks %v shifts %v, decoder shifts %v", encMask, encShr, decShl))
	// shift start byte
	ss, okS := constUint(c.Program, pkgNumeric, "ShiftStartInt64")
	sv := fmt.Sprint(ss)
	addC, subC := constsOfOp(enc, token.ADD), constsOfOp(decS, token.SUB)
	c.Check(okS && has(addC, sv) && has(subC, sv), "shift-start byte agrees between encoder and Shift()", c.Pos(decS.Pos()), "ShiftStartInt64 on both sides", fmt.Sprintf("encoder adds %v, Shift() subtracts %v, ShiftStartInt64=%s", addC, subC, sv))
	// length formula ((63 - shift) / 7) + 1
	q1, q2 := constsOfOp(enc, token.QUO), constsOfOp(valid, token.QUO)
	s1, s2 := constsOfOp(enc, token.SUB), constsOfOp(valid, token.SUB)
	c.Check(has(q1, "7") && has(q2, "7") && has(s1, "63") && has(s2, "63"), "length formula agrees between encoder and validator", c.Pos(valid.Pos()), "((63 - shift) / 7) + 1 on both sides", fmt.Sprintf("encoder /%v -%v, validator /%v -%v", q1, s1, q2, s2))
	// doc-value decoders select shift 0
	_ = decS
}

func ruleC10R3(c *Ctx) {
	n := 0
	for _, fn := range c.FuncsIn(pkgSearcher) {
		if !isRangeSplitter(fn) || fn.Blocks == nil {
			continue
		}
		n++
		// bound arithmetic: (bound + diff) and (bound - diff) with diff a shifted one
		eachInstr(fn, func(in ssa.Instruction) {
			b, ok := in.(*ssa.BinOp)
			if !ok || b.Op != token.ADD && b.Op != token.SUB {
				return
			}
			shl, isShl := b.Y.(*ssa.BinOp)
			if !isShl || shl.Op != token.SHL {
				return
			}
			bt, isBasic := b.X.Type().Underlying().(*types.Basic)
			if !isBasic || bt.Kind() != types.Int64 {
				return
			}
			dir := "lower"
			if b.Op == token.SUB {
				dir = "upper"
			}
			key := fmt.Sprintf("%s bound advance in %s is guarded against wrap-around", dir, FuncName(fn))
			guarded := false
			eachInstr(fn, func(g ssa.Instruction) {
				cmp, ok := g.(*ssa.BinOp)
				if !ok || cmp.Op != token.LSS && cmp.Op != token.GTR && cmp.Op != token.LEQ && cmp.Op != token.GEQ {
					return
				}
				fromAdv := func(v ssa.Value) bool { return dependsOn(v, func(y ssa.Value) bool { return y == ssa.Value(b) }) }
				switch {
				case cmp.Y == b.X && cmp.X != b.X && fromAdv(cmp.X):
				case cmp.X == b.X && cmp.Y != b.X && fromAdv(cmp.Y):
				default:
					return
				}
				// the comparison must influence control flow
				infl := false
				var visit func(v ssa.Value, d int)
				visit = func(v ssa.Value, d int) {
					if d > 6 || v.Referrers() == nil {
						return
					}
					for _, r := range *v.Referrers() {
						switch x := r.(type) {
						case *ssa.If:
							infl = true
						case *ssa.Phi:
							visit(x, d+1)
						case *ssa.BinOp:
							visit(x, d+1)
						case *ssa.UnOp:
							visit(x, d+1)
						}
					}
				}
				visit(cmp, 0)
				if infl {
					guarded = true
				}
			})
			c.Check(guarded, key, c.Pos(in.Pos()), "the advanced bound is compared with the bound it came from and the result steers the loop",
				"the bound is advanced by a power of two without any wrap-around test: near the int64 extremes it overflows and the decomposition covers (almost) the whole value space")
		})
	}
	if n == 0 {
		c.Undecided("range splitter", "-", "no func(int64,int64,uint) range splitter in search/searcher")
	}
}
