package main

import (
	"fmt"

	"golang.org/x/tools/go/ssa"
)

// C02.R5: a Snapshot literal that takes its epoch from another snapshot S stands for S
// (the "equivalent" written to disk after an in-memory merge). Whatever is listed in it
// is what a crash at that epoch recovers: every element put into its segment list must be
// an element of S itself or a segmentSnapshot literal built in place (whose deleted set
// C01.R2 constrains). An element taken from any other snapshot carries the deleted set
// of a different epoch.

func init() {
	registerRule(&RuleInfo{ID: "C02.R5", Title: "the snapshot written in place of S lists only S's elements or fresh stand-ins", Floor: 1, Run: ruleC02R5,
		Covers: "every Snapshot literal of package index whose epoch is copied from another snapshot; every element appended to its segment list"})
}

func ruleC02R5(c *Ctx) {
	a := c.Idx()
	n := 0
	for _, fn := range c.FuncsIn(pkgIndex) {
		eachInstr(fn, func(in ssa.Instruction) {
			al, ok := in.(*ssa.Alloc)
			if !ok || al.Comment != "complit" || namedOf(al.Type()) != a.Snapshot {
				return
			}
			eps := fieldStoresOfLiteral(al, a.SnapEpoch)
			if len(eps) != 1 {
				return
			}
			f, src := loadedField(eps[0].Val)
			if f != a.SnapEpoch {
				return
			}
			n++
			key := fmt.Sprintf("equivalent snapshot #%d in %s", n, FuncName(fn))
			var problems []string
			sameSnap := func(base ssa.Value) bool { return base == src || sameBase(base, src) }
			checkElem := func(v ssa.Value, pos string) {
				if lit, isAl := v.(*ssa.Alloc); isAl && lit.Comment == "complit" && namedOf(lit.Type()) == a.SegSnap {
					return
				}
				if u, isLd := isLoad(v); isLd {
					if ia, isIA := u.X.(*ssa.IndexAddr); isIA {
						if f2, base := loadedField(ia.X); f2 == a.SnapSegment && sameSnap(base) {
							return
						}
					}
				}
				problems = append(problems, "an element listed at "+pos+" is neither an element of the snapshot whose epoch is used nor a stand-in built in place (it brings the deleted set of another epoch)")
			}
			// every store into the literal's segment field, in this function
			eachInstr(fn, func(g ssa.Instruction) {
				st, ok := g.(*ssa.Store)
				if !ok {
					return
				}
				fa, ok := st.Addr.(*ssa.FieldAddr)
				if !ok || fieldVar(fa) != a.SnapSegment || !(fa.X == ssa.Value(al) || sameBase(fa.X, al)) && !isLoadOfCellHolding(fa.X, al) {
					return
				}
				switch v := st.Val.(type) {
				case *ssa.MakeSlice:
				case *ssa.Call:
					if builtinName(v.Common()) != "append" {
						problems = append(problems, "segment list assigned from a call at "+c.Pos(st.Pos()))
						return
					}
					for _, e := range appendedElems(v) {
						checkElem(e, c.Pos(v.Pos()))
					}
					if v.Common().Signature().Variadic() && len(appendedElems(v)) == 0 {
						// append(x, other...) : the spread slice must be S's own list
						if f3, base := loadedField(v.Common().Args[1]); !(f3 == a.SnapSegment && sameSnap(base)) {
							problems = append(problems, "a whole list that is not the list of the snapshot whose epoch is used is appended at "+c.Pos(v.Pos()))
						}
					}
				default:
					if f3, base := loadedField(st.Val); f3 == a.SnapSegment && sameSnap(base) {
						return
					}
					problems = append(problems, "segment list assigned at "+c.Pos(st.Pos())+" from something other than the list of the snapshot whose epoch is used")
				}
			})
			c.Check(len(problems) == 0, key, c.Pos(al.Pos()), "lists only elements of the snapshot whose epoch it carries, or stand-ins built in place", uniqJoin(problems))
		})
	}
}

// appendedElems: the individual values of append(x, e1, e2, ...) (the elements stored into
// the implicit varargs array).
func appendedElems(call *ssa.Call) []ssa.Value {
	args := call.Common().Args
	if len(args) != 2 {
		return nil
	}
	sl, ok := args[1].(*ssa.Slice)
	if !ok {
		return nil
	}
	arr, ok := sl.X.(*ssa.Alloc)
	if !ok || arr.Referrers() == nil {
		return nil
	}
	var rv []ssa.Value
	for _, r := range *arr.Referrers() {
		if ia, ok := r.(*ssa.IndexAddr); ok && ia.Referrers() != nil {
			for _, rr := range *ia.Referrers() {
				if st, ok := rr.(*ssa.Store); ok && st.Addr == ia {
					rv = append(rv, st.Val)
				}
			}
		}
	}
	return rv
}

// isLoadOfCellHolding: v is a load of a local cell into which lit (and nothing else) is stored.
func isLoadOfCellHolding(v ssa.Value, lit *ssa.Alloc) bool {
	u, ok := isLoad(v)
	if !ok {
		return false
	}
	cell, ok := u.X.(*ssa.Alloc)
	if !ok || cell.Referrers() == nil {
		return false
	}
	n := 0
	for _, r := range *cell.Referrers() {
		if st, ok := r.(*ssa.Store); ok && st.Addr == cell {
			if st.Val != ssa.Value(lit) {
				return false
			}
			n++
		}
	}
	return n > 0
}
