package main

import (
	"fmt"
	"go/token"
	"go/types"
	"sort"
	"strings"

	"golang.org/x/tools/go/ssa"
)

// Rules added with the third round of seeded defects.

func init() {
	registerRule(&RuleInfo{ID: "C06.R6", Title: "doc-number universes span the full segment, not its live count", Floor: 1, Run: ruleC06R6,
		Covers: "every Bitmap.AddRange of package index"})
	registerRule(&RuleInfo{ID: "C04.R5", Title: "a recycled postings iterator is fully reset before it is handed out", Floor: 1, Run: ruleC04R5,
		Covers: "the functions that take an iterator from Snapshot.fieldTFRs; the cursor fields its methods write"})
	registerRule(&RuleInfo{ID: "C04.R6", Title: "the bytes of an in-memory item are never rewritten once they can have been handed out", Floor: 1, Run: ruleC04R6,
		Covers: "every mutating bytes.Buffer call of package index"})
	registerRule(&RuleInfo{ID: "C11.R8", Title: "a load function that fails releases the locked file it was given", Floor: 2, Run: ruleC11R8,
		Covers: "every function of the module with the signature of FileSystemDirectory's load hook"})
	registerRule(&RuleInfo{ID: "C13.R4", Title: "Persist creates files only under the item's canonical name", Floor: 1, Run: ruleC13R4,
		Covers: "every path handed to an exclusive open / rename in a file-based Persist"})
}

// ---- C06.R6 ---------------------------------------------------------------------------------

// The set "all doc numbers of this segment" is [0, segment.Count()): deleted documents keep
// their numbers. A range bounded by segmentSnapshot.Count() (full minus deleted) drops the
// highest-numbered documents from the set as soon as the segment has deletions.
func ruleC06R6(c *Ctx) {
	a := c.Idx()
	live := c.Method(pkgIndex, "segmentSnapshot", "Count")
	n := 0
	for _, fn := range c.FuncsIn(pkgIndex) {
		eachInstr(fn, func(in ssa.Instruction) {
			ci, ok := in.(*ssa.Call)
			if !ok {
				return
			}
			f := ci.Common().StaticCallee()
			if f == nil || f.Name() != "AddRange" || len(ci.Common().Args) != 3 || !isBitmapPtr(ci.Common().Args[0].Type()) {
				return
			}
			n++
			key := fmt.Sprintf("doc-number range #%d in %s", n, FuncName(fn))
			hi := ci.Common().Args[2]
			usesLive := dependsOn(hi, func(y ssa.Value) bool {
				call, ok := y.(*ssa.Call)
				return ok && call.Common().StaticCallee() == live
			})
			usesFull := dependsOn(hi, func(y ssa.Value) bool {
				call, ok := y.(*ssa.Call)
				if !ok || callMethodName(call.Common()) != "Count" || call.Common().StaticCallee() == live {
					return false
				}
				r, _ := recvAndArgs(call.Common())
				return r != nil && dependsOnField(r, a.SSSegment)
			})
			c.Check(!usesLive && usesFull, key, c.Pos(ci.Pos()), "bounded by the segment's full Count()",
				fmt.Sprintf("the range of doc numbers is not bounded by the full size of the segment (uses the live count: %v, uses segment.Count(): %v): with deletions the highest doc numbers fall out of the set (e.g. they are not marked deleted in a merged segment)", usesLive, usesFull))
		})
	}
}

// ---- C04.R5 ---------------------------------------------------------------------------------

// An iterator taken from the pool keeps the cursor state of its previous use. Every
// non-container field that the iterator's own methods write while iterating must be assigned
// on every path of the function that takes it from the pool, before it is returned.
func ruleC04R5(c *Ctx) {
	pool := c.Field(pkgIndex, "Snapshot", "fieldTFRs")
	itT := c.Named(pkgIndex, "postingsIterator")
	// pop functions: read the pool and return an iterator
	pops := map[*ssa.Function]bool{}
	iterResult := func(fn *ssa.Function) int {
		for i := 0; i < fn.Signature.Results().Len(); i++ {
			if namedOf(fn.Signature.Results().At(i).Type()) == itT {
				return i
			}
		}
		return -1
	}
	for changed := true; changed; {
		changed = false
		for _, fn := range c.FuncsIn(pkgIndex) {
			if pops[fn] || iterResult(fn) < 0 || fn.Parent() != nil {
				continue
			}
			isPop := false
			eachInstr(fn, func(in ssa.Instruction) {
				if fa, ok := in.(*ssa.FieldAddr); ok && fieldVar(fa) == pool {
					isPop = true // takes it from the pool itself
				}
				// or hands on what a pop function returned, without touching it
				if r, ok := in.(*ssa.Return); ok {
					for _, rv := range r.Results {
						v := rv
						if ext, ok := v.(*ssa.Extract); ok {
							v = ext.Tuple
						}
						if call, ok := v.(*ssa.Call); ok && pops[call.Common().StaticCallee()] && len(storesThrough(fn, rv)) == 0 {
							isPop = true
						}
					}
				}
			})
			if isPop {
				pops[fn] = true
				changed = true
			}
		}
	}
	// cursor fields: written through the receiver by methods of the iterator
	cursor := map[*types.Var]bool{}
	for _, fn := range c.FuncsIn(pkgIndex) {
		if methodRecvNamed(fn) != itT || len(fn.Params) == 0 {
			continue
		}
		eachInstr(fn, func(in ssa.Instruction) {
			st, ok := in.(*ssa.Store)
			if !ok {
				return
			}
			if fa, ok := st.Addr.(*ssa.FieldAddr); ok && fa.X == ssa.Value(fn.Params[0]) {
				fv := fieldVar(fa)
				switch fv.Type().Underlying().(type) {
				case *types.Slice, *types.Map:
					return // containers are re-used on purpose (guarded by nil tests at the reuse site)
				}
				cursor[fv] = true
			}
		})
	}
	n := 0
	for _, fn := range c.FuncsIn(pkgIndex) {
		if pops[fn] {
			continue
		}
		eachInstr(fn, func(in ssa.Instruction) {
			ci, ok := in.(*ssa.Call)
			if !ok || !pops[ci.Common().StaticCallee()] {
				return
			}
			// the iterator value: the call itself, or the component of its result tuple
			var itv ssa.Value = ci
			if ci.Common().Signature().Results().Len() > 1 {
				itv = resultValue2(ci, iterResult(ci.Common().StaticCallee()))
				if itv == nil {
					return
				}
			}
			n++
			key := fmt.Sprintf("reuse site #%d of a pooled postings iterator in %s resets its cursor", n, FuncName(fn))
			var names []string
			for fv := range cursor {
				names = append(names, fv.Name())
			}
			sort.Strings(names)
			// every cursor field is stored on every path from the pop to a return of the iterator
			assigned := map[*types.Var]uint64{}
			bit := map[*types.Var]uint64{}
			i := 0
			for fv := range cursor {
				bit[fv] = 1 << uint(i)
				i++
			}
			_ = assigned
			var all uint64
			for _, b := range bit {
				all |= b
			}
			var missing []string
			ex := &Explorer{Fn: fn}
			ex.OnInstr = func(x ssa.Instruction, st *PState) bool {
				if x == ssa.Instruction(ci) {
					st.Flags = 0
				}
				if s2, ok := x.(*ssa.Store); ok {
					if fa, ok := s2.Addr.(*ssa.FieldAddr); ok && (fa.X == itv || st.Canon(fa.X) == itv) {
						st.Flags |= bit[fieldVar(fa)]
					}
				}
				return true
			}
			ex.OnReturn = func(r *ssa.Return, st *PState) {
				returnsIt := false
				for _, rv := range r.Results {
					if st.Canon(rv) == itv || dependsOn(rv, func(y ssa.Value) bool { return y == itv }) {
						returnsIt = true
					}
				}
				if !returnsIt || st.Flags&all == all {
					return
				}
				for fv, b := range bit {
					if st.Flags&b == 0 {
						missing = append(missing, fv.Name())
					}
				}
			}
			ex.RunAfter(ci, newPState())
			if ex.Exceeded {
				c.Undecided(key, c.Pos(ci.Pos()), "path exploration did not finish")
				return
			}
			sort.Strings(missing)
			c.Check(len(missing) == 0, key, c.Pos(ci.Pos()), "assigns every cursor field ("+strings.Join(names, ", ")+") before returning the iterator",
				"the iterator is handed out with the "+uniqJoin(missing)+" of its previous use: a first Advance to an earlier document is taken for a backwards seek, the restart path recycles the iterator while it is in use, and two scans of the same field then share one object")
		})
	}
}

// ---- C04.R6 ---------------------------------------------------------------------------------

// InMemoryDirectory.Load hands out a view of the installed buffer's bytes without a closer
// or reference count. A buffer that is (or was) installed must therefore never be written
// again: mutating bytes.Buffer methods are allowed only on a buffer created in the same
// function (which installs it after the write succeeded, C13.R1).
func ruleC04R6(c *Ctx) {
	mutators := map[string]bool{"Reset": true, "Write": true, "WriteString": true, "WriteByte": true, "WriteRune": true, "Truncate": true, "ReadFrom": true, "Grow": true}
	n := 0
	for _, fn := range c.FuncsIn(pkgIndex) {
		eachInstr(fn, func(in ssa.Instruction) {
			ci, ok := in.(*ssa.Call)
			if !ok {
				return
			}
			f := ci.Common().StaticCallee()
			if f == nil || f.Pkg == nil || f.Pkg.Pkg.Path() != "bytes" || f.Signature.Recv() == nil || !mutators[f.Name()] {
				return
			}
			if nm := namedOf(f.Signature.Recv().Type()); nm == nil || nm.Obj().Name() != "Buffer" {
				return
			}
			n++
			key := fmt.Sprintf("bytes.Buffer.%s #%d in %s", f.Name(), n, FuncName(fn))
			recv := ci.Common().Args[0]
			_, fresh := recv.(*ssa.Alloc)
			c.Check(fresh, key, c.Pos(ci.Pos()), "on a buffer created in this function", "a buffer that is not created in this function (taken from a field, map or list of the directory) is rewritten: bytes already handed out by Load to an open Reader or a running merge change under it")
		})
		// a WriteTo into a buffer: the destination must be fresh as well
		eachInstr(fn, func(in ssa.Instruction) {
			cc := callOf(in)
			if cc == nil || !cc.IsInvoke() || cc.Method.Name() != "WriteTo" || len(cc.Args) < 1 {
				return
			}
			dst := stripIface(cc.Args[0])
			if nm := namedOf(dst.Type()); nm == nil || nm.Obj().Name() != "Buffer" || nm.Obj().Pkg() == nil || nm.Obj().Pkg().Path() != "bytes" {
				return
			}
			n++
			key := fmt.Sprintf("WriteTo into a bytes.Buffer #%d in %s", n, FuncName(fn))
			_, fresh := dst.(*ssa.Alloc)
			c.Check(fresh, key, c.Pos(in.Pos()), "into a buffer created in this function", "an item is written into a buffer that is not created in this function: a buffer that was installed before is reused and its old bytes, possibly still viewed by a Reader, are overwritten")
		})
	}
}

// ---- C11.R8 ---------------------------------------------------------------------------------

// FileSystemDirectory.Load opens the file with a shared lock and passes it to the load hook
// (func(lock.LockedFile) (*segment.Data, io.Closer, error)); it does not look at the file
// again. The hook therefore owns the handle: when it fails it must have closed it, and when
// it succeeds the closer it returns must be built around it.
func ruleC11R8(c *Ctx) {
	lf := c.Named(pkgIndex+"/lock", "LockedFile")
	n := 0
	for _, fn := range c.SrcFuncs() {
		sig := fn.Signature
		if fn.Parent() != nil || sig.Recv() != nil || sig.Params().Len() != 1 || sig.Results().Len() != 3 || namedOf(sig.Params().At(0).Type()) != lf || !isErrorType(sig.Results().At(2).Type()) {
			continue
		}
		n++
		key := "load hook " + FuncName(fn) + " releases the file when it fails"
		p := fn.Params[0]
		const fClosed uint64 = 1
		var problems []string
		// the parameter itself, or the cell it is spilled into when a closure captures it
		holdsParam := func(v ssa.Value) bool {
			if v == ssa.Value(p) {
				return true
			}
			if u, ok := isLoad(v); ok {
				if al, ok := u.X.(*ssa.Alloc); ok && isLoadOfCellHoldingParam(al, p) {
					return true
				}
			}
			return false
		}
		closesParam := func(cc *ssa.CallCommon, st *PState) bool {
			if cc == nil || callMethodName(cc) != "Close" {
				return false
			}
			r, _ := recvAndArgs(cc)
			return r != nil && (holdsParam(r) || st.Canon(r) == ssa.Value(p))
		}
		ex := &Explorer{Fn: fn}
		ex.OnInstr = func(in ssa.Instruction, st *PState) bool {
			if closesParam(callOf(in), st) {
				if _, isCall := in.(*ssa.Call); isCall {
					st.Flags |= fClosed
				}
			}
			return true
		}
		ex.OnReturn = func(r *ssa.Return, st *PState) {
			if len(r.Results) != 3 {
				return
			}
			if st.Eval(r.Results[2]) == TriYes && st.Flags&fClosed == 0 {
				problems = append(problems, "returns an error at "+c.Pos(r.Pos())+" with the locked file still open: its shared lock is held until the process exits (the next writer of that item fails to lock it)")
			}
			if st.Eval(r.Results[2]) != TriYes && st.Flags&fClosed == 0 {
				// success: the closer must be able to close the file
				okCloser := dependsOn(r.Results[1], func(y ssa.Value) bool {
					mc, ok := y.(*ssa.MakeClosure)
					if !ok {
						return holdsParam(y)
					}
					// a bound method value f.Close
					if f := mc.Fn.(*ssa.Function); f.Synthetic != "" && strings.HasSuffix(f.Name(), "Close$bound") && len(mc.Bindings) == 1 && holdsParam(mc.Bindings[0]) {
						return true
					}
					for i, b := range mc.Bindings {
						al, isCell := b.(*ssa.Alloc)
						if b == ssa.Value(p) || isCell && isLoadOfCellHoldingParam(al, p) {
							closes := false
							f := mc.Fn.(*ssa.Function)
							eachInstr(f, func(x ssa.Instruction) {
								if cc := callOf(x); cc != nil && callMethodName(cc) == "Close" {
									rr, _ := recvAndArgs(cc)
									if rr == ssa.Value(f.FreeVars[i]) {
										closes = true
									}
									if u, ok := isLoad(rr); ok && u.X == ssa.Value(f.FreeVars[i]) {
										closes = true
									}
								}
							})
							return closes
						}
					}
					return false
				})
				if !okCloser {
					problems = append(problems, "on success at "+c.Pos(r.Pos())+" the returned closer is not built around the locked file")
				}
			}
		}
		ex.Run()
		if ex.Exceeded {
			c.Undecided(key, c.Pos(fn.Pos()), "path exploration did not finish")
			continue
		}
		c.Check(len(problems) == 0, key, c.Pos(fn.Pos()), "closed on every failing return; the success closer closes it", uniqJoin(problems))
	}
	_ = token.ADD
}

// ---- C13.R4 ---------------------------------------------------------------------------------

// List parses every file name with the kind's extension as a hexadecimal identifier and
// fails on anything else, and open/recovery go through List. Whatever name Persist creates can
// be left behind by a crash, so Persist may create (or rename to/from) only the canonical
// name filepath.Join(dir, fileName(kind, id)): no prefix, suffix or temporary name.
func ruleC13R4(c *Ctx) {
	m := newPersistModel(c.Program)
	n := 0
	for _, fn := range directoryMethodImpls(c.Program, "Persist") {
		recvT := methodRecvNamed(fn)
		var fileName *ssa.Function
		if recvT != nil {
			fileName = methodOfNamed(c, recvT, "fileName")
		}
		var paths []struct {
			v  ssa.Value
			in ssa.Instruction
		}
		for _, g := range append([]*ssa.Function{fn}, fn.AnonFuncs...) {
			eachInstr(g, func(in ssa.Instruction) {
				ci, ok := in.(ssa.CallInstruction)
				if !ok {
					return
				}
				cc := ci.Common()
				switch {
				case m.isOpen(ci) && len(cc.Args) >= 2:
					for _, a := range cc.Args {
						if b, ok := a.Type().Underlying().(*types.Basic); ok && b.Kind() == types.String {
							paths = append(paths, struct {
								v  ssa.Value
								in ssa.Instruction
							}{a, in})
						}
					}
				case isPkgFunc(cc, "os", "Rename"), isPkgFunc(cc, "os", "Create"), isPkgFunc(cc, "os", "OpenFile"), isPkgFunc(cc, "os", "WriteFile"), isPkgFunc(cc, "os", "Link"), isPkgFunc(cc, "os", "Symlink"):
					for _, a := range cc.Args {
						if b, ok := a.Type().Underlying().(*types.Basic); ok && b.Kind() == types.String {
							paths = append(paths, struct {
								v  ssa.Value
								in ssa.Instruction
							}{a, in})
						}
					}
				}
			})
		}
		for _, p := range paths {
			n++
			key := fmt.Sprintf("file name #%d used by %s", n, FuncName(fn))
			if fileName == nil {
				c.Undecided(key, c.Pos(p.in.Pos()), "the directory type has no fileName method: naming idiom unknown to the rule")
				continue
			}
			viaName := dependsOn(p.v, func(y ssa.Value) bool {
				call, ok := y.(*ssa.Call)
				return ok && call.Common().StaticCallee() == fileName
			})
			// what happens inside fileName is the canonical name by definition: do not look into it
			atName := func(y ssa.Value) bool {
				call, ok := y.(*ssa.Call)
				return ok && call.Common().StaticCallee() == fileName
			}
			concat := dependsOnStop(p.v, func(y ssa.Value) bool {
				b, ok := y.(*ssa.BinOp)
				if !ok || b.Op != token.ADD {
					return false
				}
				bt, ok := b.Type().Underlying().(*types.Basic)
				return ok && bt.Kind() == types.String
			}, atName)
			sprintf := dependsOnStop(p.v, func(y ssa.Value) bool {
				call, ok := y.(*ssa.Call)
				return ok && (isPkgFunc(call.Common(), "fmt", "Sprintf") || isPkgFunc(call.Common(), "strings", "Replace") || isPkgFunc(call.Common(), "strings", "TrimSuffix"))
			}, atName)
			c.Check(viaName && !concat && !sprintf, key, c.Pos(p.in.Pos()), "filepath.Join(dir, fileName(kind, id)) without further decoration",
				fmt.Sprintf("a file is created or renamed under a name that is not exactly the item's canonical name (from fileName: %v, string concatenation: %v, formatted: %v): a crash leaves a file with the item's extension that List cannot parse, and the directory can no longer be opened", viaName, concat, sprintf))
		}
	}
}

// isLoadOfCellHoldingParam: the cell al holds the parameter p (a parameter captured by a closure
// is spilled into a cell at function entry).
func isLoadOfCellHoldingParam(al *ssa.Alloc, p *ssa.Parameter) bool {
	if al.Referrers() == nil {
		return false
	}
	n := 0
	for _, r := range *al.Referrers() {
		if st, ok := r.(*ssa.Store); ok && st.Addr == ssa.Value(al) {
			if st.Val != ssa.Value(p) {
				return false
			}
			n++
		}
	}
	return n > 0
}

func init() {
	registerRule(&RuleInfo{ID: "C11.R9", Title: "every writer gets a deletion policy of its own", Floor: 1, Run: ruleC11R9,
		Covers: "every function assigned to Config.DeletionPolicyFunc in the module"})
	registerRule(&RuleInfo{ID: "C03.R4", Title: "every configuration constructor validates snapshot checksums", Floor: 2, Run: ruleC03R4,
		Covers: "every exported function of package index that returns a Config"})
	registerRule(&RuleInfo{ID: "C09.R5", Title: "document values are read through the reader of the hit's own index", Floor: 1, Run: ruleC09R5,
		Covers: "the functions of package search that hand out a DocumentValueReader"})
	registerRule(&RuleInfo{ID: "C08.R7", Title: "a fixed-arity combination of list elements is used only when the list has exactly that many", Floor: 1, Run: ruleC08R7,
		Covers: "calls in package index whose arguments are all constant-indexed elements of one list"})
}

// ---- C11.R9 ---------------------------------------------------------------------------------

// KeepNLatestDeletionPolicy keeps per-directory bookkeeping (live epochs, known segment
// files). A policy instance shared by two writers (the same Config value used to open,
// close and reopen) sees the reopened snapshot's epoch a second time, declares it
// deletable and removes the newest snapshot. The function stored in Config.DeletionPolicyFunc
// must therefore create the policy it returns.
func ruleC11R9(c *Ctx) {
	fPol := c.Field(pkgIndex, "Config", "DeletionPolicyFunc")
	n := 0
	for _, fn := range c.SrcFuncs() {
		for _, st := range storesToField(fn, fPol) {
			var lit *ssa.Function
			switch v := st.Val.(type) {
			case *ssa.MakeClosure:
				lit, _ = v.Fn.(*ssa.Function)
			case *ssa.Function:
				lit = v
			}
			n++
			key := fmt.Sprintf("deletion policy factory #%d assigned in %s", n, FuncName(fn))
			if lit == nil || lit.Blocks == nil {
				if _, isParam := st.Val.(*ssa.Parameter); isParam {
					c.OK(key, c.Pos(st.Pos()), "supplied by the caller")
					continue
				}
				c.Undecided(key, c.Pos(st.Pos()), "the factory is not a function literal or declared function")
				continue
			}
			fresh := true
			eachInstr(lit, func(in ssa.Instruction) {
				r, ok := in.(*ssa.Return)
				if !ok || len(r.Results) != 1 {
					return
				}
				v := stripIface(r.Results[0])
				made := false
				switch x := v.(type) {
				case *ssa.Call:
					made = x.Common().StaticCallee() != nil // a constructor call made in the factory
				case *ssa.Alloc:
					made = true
				}
				if !made || dependsOn(v, func(y ssa.Value) bool {
					switch y.(type) {
					case *ssa.FreeVar, *ssa.Global:
						return true
					}
					return false
				}) {
					fresh = false
				}
			})
			c.Check(fresh, key, c.Pos(st.Pos()), "returns a policy created in the call", "the factory hands every writer the same policy instance (captured variable or package variable): a Config reused to reopen the index carries the previous writer's bookkeeping, the reopened epoch is counted twice and the newest snapshot is removed")
		}
	}
}

// ---- C03.R4 ---------------------------------------------------------------------------------

// Checksum validation must be on for every way of obtaining a configuration: a constructor
// that forgets it loads snapshots unchecked (a bit flip is accepted as another state).
func ruleC03R4(c *Ctx) {
	fVal := c.Field(pkgIndex, "Config", "ValidateSnapshotCRC")
	cfg := c.Named(pkgIndex, "Config")
	var ctors []*ssa.Function
	for _, fn := range c.FuncsIn(pkgIndex) {
		if fn.Parent() == nil && fn.Signature.Recv() == nil && fn.Signature.Results().Len() == 1 && namedOf(fn.Signature.Results().At(0).Type()) == cfg {
			if _, isPtr := fn.Signature.Results().At(0).Type().(*types.Pointer); !isPtr {
				ctors = append(ctors, fn)
			}
		}
	}
	sortFuncs(c.Program, ctors)
	setsTrue := func(fn *ssa.Function) (bool, bool) { // (sets true, sets false)
		t, f := false, false
		for _, st := range storesToField(fn, fVal) {
			if b, ok := constBool(st.Val); ok {
				if b {
					t = true
				} else {
					f = true
				}
			} else {
				f = true
			}
		}
		return t, f
	}
	okSet := map[*ssa.Function]bool{}
	for changed := true; changed; {
		changed = false
		for _, fn := range ctors {
			if okSet[fn] {
				continue
			}
			t, f := setsTrue(fn)
			viaCtor := false
			eachInstr(fn, func(in ssa.Instruction) {
				if ci, ok := in.(*ssa.Call); ok && okSet[ci.Common().StaticCallee()] {
					viaCtor = true
				}
			})
			if !f && (t || viaCtor) {
				okSet[fn] = true
				changed = true
			}
		}
	}
	for _, fn := range ctors {
		if fn.Object() == nil || !fn.Object().Exported() {
			continue
		}
		c.Check(okSet[fn], "configuration from "+FuncName(fn)+" validates snapshot checksums", c.Pos(fn.Pos()), "sets ValidateSnapshotCRC (directly or through the constructor it builds on) and never clears it",
			"a configuration obtained from this constructor does not validate snapshot checksums: a damaged snapshot that still decodes is accepted as another state")
	}
}

// ---- C09.R5 ---------------------------------------------------------------------------------

// The sort keys and aggregation inputs of a hit are document values read through a reader
// opened on the index the hit comes from (a multi-search collects hits of several indexes
// in one search context). A function that hands out a DocumentValueReader for an index
// reader r must return either the result of r.DocumentValueReader(...) or an entry of a
// cache looked up under r itself.
func ruleC09R5(c *Ctx) {
	readable := c.Named(pkgSearch, "DocumentValueReadable")
	n := 0
	for _, fn := range c.FuncsIn(pkgSearch) {
		if fn.Signature.Results().Len() != 2 || !isErrorType(fn.Signature.Results().At(1).Type()) {
			continue
		}
		if rn := namedOf(fn.Signature.Results().At(0).Type()); rn == nil || rn.Obj().Name() != "DocumentValueReader" {
			continue
		}
		var rp *ssa.Parameter
		for _, p := range fn.Params {
			if namedOf(p.Type()) == readable {
				rp = p
			}
		}
		if rp == nil {
			continue
		}
		n++
		key := "document value reader handed out by " + FuncName(fn) + " belongs to the reader asked for"
		var problems []string
		var leaves func(v ssa.Value, seen map[ssa.Value]bool)
		leaves = func(v ssa.Value, seen map[ssa.Value]bool) {
			if seen[v] {
				return
			}
			seen[v] = true
			switch x := v.(type) {
			case *ssa.Phi:
				for _, e := range x.Edges {
					leaves(e, seen)
				}
			case *ssa.Const:
				// nil on error paths
			case *ssa.Extract:
				if call, ok := x.Tuple.(*ssa.Call); ok && call.Common().IsInvoke() && call.Common().Value == ssa.Value(rp) {
					return
				}
				if lk, ok := x.Tuple.(*ssa.Lookup); ok && (lk.Index == ssa.Value(rp) || stripIface(lk.Index) == ssa.Value(rp)) {
					return
				}
				problems = append(problems, "a returned reader at "+c.Pos(x.Pos())+" comes from neither the requested index reader nor a cache entry stored under it")
			case *ssa.Lookup:
				if x.Index == ssa.Value(rp) || stripIface(x.Index) == ssa.Value(rp) {
					return
				}
				problems = append(problems, "a cached reader is looked up at "+c.Pos(x.Pos())+" under a key that is not the requested index reader")
			case *ssa.UnOp:
				if u, ok := isLoad(x); ok {
					if al, ok := u.X.(*ssa.Alloc); ok && al.Referrers() != nil {
						for _, r := range *al.Referrers() {
							if st, ok := r.(*ssa.Store); ok && st.Addr == ssa.Value(al) {
								leaves(st.Val, seen)
							}
						}
						return
					}
				}
				problems = append(problems, "a returned reader at "+c.Pos(x.Pos())+" is read from state that is not keyed by the requested index reader (one reader serves hits of every index of a multi-search)")
			default:
				problems = append(problems, "a returned reader at "+c.Pos(v.Pos())+" does not come from the requested index reader")
			}
		}
		eachInstr(fn, func(in ssa.Instruction) {
			if r, ok := in.(*ssa.Return); ok && len(r.Results) == 2 {
				leaves(r.Results[0], map[ssa.Value]bool{})
			}
		})
		c.Check(len(problems) == 0, key, c.Pos(fn.Pos()), "opened on the requested reader, or taken from the cache under that reader", uniqJoin(problems))
	}
}

// ---- C08.R7 ---------------------------------------------------------------------------------

// `Or(xs[0], xs[1])` stands for "the union of xs" only when xs has exactly two elements. A
// call all of whose arguments are constant-indexed elements of one list must sit behind
// length tests that pin the length of the list to the number of elements used: with a looser
// test the remaining elements are silently left out (documents of the third term of a
// disjunction disappear when there happen to be exactly three).
func ruleC08R7(c *Ctx) {
	n := 0
	for _, fn := range c.FuncsIn(pkgIndex) {
		eachInstr(fn, func(in ssa.Instruction) {
			ci, ok := in.(*ssa.Call)
			if !ok || len(ci.Common().Args) < 2 || builtinName(ci.Common()) != "" {
				return
			}
			path, maxIdx := "", int64(-1)
			var base ssa.Value
			for _, a := range ci.Common().Args {
				u, isLd := isLoad(a)
				if !isLd {
					return
				}
				ia, isIA := u.X.(*ssa.IndexAddr)
				if !isIA {
					return
				}
				k, isC := constInt(ia.Index)
				p := accessPath(ia.X)
				if !isC || p == "" || path != "" && p != path {
					return
				}
				if _, isSlice := ia.X.Type().Underlying().(*types.Slice); !isSlice {
					return
				}
				path, base = p, ia.X
				if k > maxIdx {
					maxIdx = k
				}
			}
			if path == "" {
				return
			}
			n++
			key := fmt.Sprintf("fixed-arity call #%d on elements of one list in %s", n, FuncName(fn))
			upper := int64(-1)
			eachInstr(fn, func(g ssa.Instruction) {
				iff, ok := g.(*ssa.If)
				if !ok {
					return
				}
				p, op, cst, okc := lenCompare(iff.Cond)
				if !okc || p != path {
					return
				}
				for edge := 0; edge < 2; edge++ {
					if !edgeDominates(iff, edge, ci.Block()) {
						continue
					}
					o := op
					if edge == 1 {
						neg := map[token.Token]token.Token{token.LSS: token.GEQ, token.GEQ: token.LSS, token.GTR: token.LEQ, token.LEQ: token.GTR, token.EQL: token.NEQ, token.NEQ: token.EQL}
						o = neg[op]
					}
					u := int64(-1)
					switch o {
					case token.LSS:
						u = cst - 1
					case token.LEQ, token.EQL:
						u = cst
					}
					if u >= 0 && (upper < 0 || u < upper) {
						upper = u
					}
				}
			})
			_ = base
			// or: the remaining elements are processed right after (xs[k:] is consumed)
			restUsed := false
			eachInstr(fn, func(g ssa.Instruction) {
				sl, ok := g.(*ssa.Slice)
				if !ok || accessPath(sl.X) != path {
					return
				}
				if k, isC := constInt(sl.Low); isC && k == maxIdx+1 && sl.High == nil && blockReach(fn)[ci.Block().Index][sl.Block().Index] {
					restUsed = true
				}
			})
			if restUsed {
				c.OK(key, c.Pos(ci.Pos()), fmt.Sprintf("the first %d elements are combined here and the rest (list[%d:]) is folded in afterwards", maxIdx+1, maxIdx+1))
				return
			}
			c.Check(upper >= 0 && upper <= maxIdx+1, key, c.Pos(ci.Pos()), fmt.Sprintf("dominating length tests give len <= %d for the %d elements used", upper, maxIdx+1),
				fmt.Sprintf("the call combines the first %d elements of the list but the dominating length tests allow a longer list (upper bound %d, -1 = none): the remaining elements are left out of the result", maxIdx+1, upper))
		})
	}
}

func init() {
	registerRule(&RuleInfo{ID: "C07.R7", Title: "a wrapper around one child searcher reports exhaustion only when the child is exhausted", Floor: 2, Run: ruleC07R7,
		Covers: "Next and Advance of every Searcher implementation with exactly one child searcher"})
	registerRule(&RuleInfo{ID: "C08.R8", Title: "a persisted segment is opened with the plugin registered for its recorded type and version", Floor: 1, Run: ruleC08R8,
		Covers: "the plugin argument of every loadSegment call in the snapshot loaders"})
}

// ---- C07.R7 ---------------------------------------------------------------------------------

// A searcher that wraps a single child and drops some of its candidates (a filter, the
// phrase check) must go on to the next candidate when it rejects one. Returning (nil, nil)
// means "no more matches": on a path where the child's most recent answer was a candidate
// and no error occurred, that cuts off every later match of an enclosing conjunction.
func ruleC07R7(c *Ctx) {
	sIface := c.Iface(pkgSearch, "Searcher")
	n := 0
	for _, named := range namedTypesImplementing(c, sIface) {
		if named.Obj().Pkg().Path() != pkgSearcher {
			continue
		}
		st, ok := named.Underlying().(*types.Struct)
		if !ok {
			continue
		}
		var child *types.Var
		kids := 0
		for i := 0; i < st.NumFields(); i++ {
			ft := st.Field(i).Type()
			if it, ok := ft.Underlying().(*types.Interface); ok && types.Identical(it, sIface) {
				kids++
				child = st.Field(i)
			}
			if sl, ok := ft.Underlying().(*types.Slice); ok {
				if it, ok := sl.Elem().Underlying().(*types.Interface); ok && types.Identical(it, sIface) {
					kids += 2
				}
			}
		}
		if kids != 1 {
			continue
		}
		// wrappers that park the child's answer in a field (and loop on that field) carry the
		// candidate across calls: the path rule below does not model that, they are not judged
		parks := false
		for _, f := range c.FuncsIn(pkgSearcher) {
			if methodRecvNamed(f) != named {
				continue
			}
			eachInstr(f, func(in ssa.Instruction) {
				st, ok := in.(*ssa.Store)
				if !ok {
					return
				}
				if _, isField := st.Addr.(*ssa.FieldAddr); !isField {
					return
				}
				if ext, ok := st.Val.(*ssa.Extract); ok {
					if call, ok := ext.Tuple.(*ssa.Call); ok && call.Common().IsInvoke() {
						if f2, _ := loadedField(call.Common().Value); f2 == child {
							parks = true
						}
					}
				}
			})
		}
		if parks {
			continue
		}
		for _, mname := range []string{"Next", "Advance"} {
			fn := methodOfNamed(c, named, mname)
			if fn == nil {
				continue
			}
			n++
			key := fmt.Sprintf("%s.%s reports exhaustion only when its child is exhausted", named.Obj().Name(), mname)
			const fCand uint64 = 1
			var problems []string
			isChildCall := func(ci ssa.CallInstruction) bool {
				cc := ci.Common()
				if !cc.IsInvoke() || cc.Method.Name() != "Next" && cc.Method.Name() != "Advance" {
					return false
				}
				f, _ := loadedField(cc.Value)
				return f == child
			}
			sm := &Summarizer{}
			sm.Follow = func(f *ssa.Function) bool {
				return methodRecvNamed(f) == named && f.Name() != "Next" && f.Name() != "Advance"
			}
			sm.SiteOutcomes = func(ci ssa.CallInstruction, st *PState) []Outcome {
				if !isChildCall(ci) {
					return nil
				}
				return []Outcome{
					{Results: []Tri{TriYes, TriNo}, Flags: st.Flags | fCand, Replace: true},
					{Results: []Tri{TriNo, TriNo}, Flags: st.Flags &^ fCand, Replace: true},
					{Results: []Tri{TriNo, TriYes}, Flags: st.Flags &^ fCand, Replace: true},
				}
			}
			ex := sm.Explorer(fn)
			ex.OnReturn = func(r *ssa.Return, st *PState) {
				if len(r.Results) != 2 {
					return
				}
				if st.Eval(r.Results[0]) == TriNo && st.Eval(r.Results[1]) != TriYes && st.Flags&fCand != 0 {
					// delegating to the sibling method is not a report of exhaustion
					if ext, ok := r.Results[0].(*ssa.Extract); ok {
						if call, ok := ext.Tuple.(*ssa.Call); ok && call.Common().StaticCallee() != nil && methodRecvNamed(call.Common().StaticCallee()) == named {
							return
						}
					}
					problems = append(problems, "returns (nil, nil) at "+c.Pos(r.Pos())+" although the child's last answer was a candidate: a rejected candidate ends the search instead of moving on to the next one")
				}
			}
			ex.Run()
			if ex.Exceeded || sm.Exceeded {
				c.Undecided(key, c.Pos(fn.Pos()), "path exploration did not finish")
				continue
			}
			c.Check(len(problems) == 0, key, c.Pos(fn.Pos()), "a nil match without an error is returned only after the child returned nil", uniqJoin(problems))
		}
	}
}

// ---- C08.R8 ---------------------------------------------------------------------------------

// Which code can read a persisted segment is recorded per segment in the snapshot (type and
// version). The plugin handed to the segment loader must, on every path, be the registry
// entry looked up under that recorded version: a shortcut through "the plugin this writer
// was opened with" opens segments of another format version with the wrong reader.
func ruleC08R8(c *Ctx) {
	plug := c.Named(pkgIndex, "SegmentPlugin")
	fVer := c.Field(pkgIndex, "segmentSnapshot", "segmentVersion")
	n := 0
	for _, fn := range snapshotLoaders(c.Program) {
		eachInstr(fn, func(in ssa.Instruction) {
			ci, ok := in.(*ssa.Call)
			if !ok || ci.Common().StaticCallee() == nil || ci.Common().StaticCallee().Name() != "loadSegment" {
				return
			}
			for _, arg := range ci.Common().Args {
				if namedOf(arg.Type()) != plug {
					continue
				}
				n++
				key := fmt.Sprintf("plugin of loadSegment #%d in %s", n, FuncName(fn))
				var bad []string
				usesVersion := dependsOnField(arg, fVer)
				var walk func(v ssa.Value, d int, seen map[ssa.Value]bool)
				walk = func(v ssa.Value, d int, seen map[ssa.Value]bool) {
					if v == nil || seen[v] || d > 6 {
						return
					}
					seen[v] = true
					switch x := v.(type) {
					case *ssa.Phi:
						for _, e := range x.Edges {
							walk(e, d, seen)
						}
					case *ssa.Const:
					case *ssa.Lookup:
						if mt, ok := x.X.Type().Underlying().(*types.Map); ok {
							if b, ok := mt.Key().Underlying().(*types.Basic); ok && b.Kind() == types.Uint32 {
								return // the version-keyed level of the registry
							}
						}
						bad = append(bad, "a lookup at "+c.Pos(x.Pos())+" that is not keyed by the version")
					case *ssa.Extract:
						switch t := x.Tuple.(type) {
						case *ssa.Lookup:
							walk(t, d, seen)
						case *ssa.Call:
							if callee := t.Common().StaticCallee(); callee != nil && callee.Blocks != nil {
								eachInstr(callee, func(g ssa.Instruction) {
									if r, ok := g.(*ssa.Return); ok && x.Index < len(r.Results) {
										walk(r.Results[x.Index], d+1, seen)
									}
								})
								return
							}
							bad = append(bad, "the result of a call at "+c.Pos(t.Pos())+" whose body is not available")
						}
					case *ssa.Call:
						if callee := x.Common().StaticCallee(); callee != nil && callee.Blocks != nil {
							eachInstr(callee, func(g ssa.Instruction) {
								if r, ok := g.(*ssa.Return); ok && len(r.Results) > 0 {
									walk(r.Results[0], d+1, seen)
								}
							})
							return
						}
						bad = append(bad, "the result of a call at "+c.Pos(x.Pos()))
					case *ssa.UnOp:
						if u, ok := isLoad(x); ok {
							if al, ok := u.X.(*ssa.Alloc); ok && al.Referrers() != nil {
								for _, r := range *al.Referrers() {
									if st, ok := r.(*ssa.Store); ok && st.Addr == ssa.Value(al) {
										walk(st.Val, d, seen)
									}
								}
								return
							}
							if fa, ok := u.X.(*ssa.FieldAddr); ok {
								bad = append(bad, "the field "+fieldVar(fa).Name()+" read at "+c.Pos(x.Pos()))
								return
							}
						}
						bad = append(bad, "a value at "+c.Pos(x.Pos()))
					default:
						bad = append(bad, "a value at "+c.Pos(v.Pos()))
					}
				}
				walk(arg, 0, map[ssa.Value]bool{})
				c.Check(usesVersion && len(bad) == 0, key, c.Pos(ci.Pos()), "on every path the registry entry under the segment's recorded version",
					fmt.Sprintf("the plugin that opens the segment does not on every path come from the registry lookup under the recorded version (depends on the recorded version: %v; other sources: %s): a segment written in another format version is opened with the wrong reader", usesVersion, uniqJoin(bad)))
			}
		})
	}
}

func init() {
	registerRule(&RuleInfo{ID: "C16.R7", Title: "value lists computed for a hit are not built in a reused buffer", Floor: 2, Run: ruleC16R7,
		Covers: "every function of package search whose result is a slice it builds with append"})
}

// ---- C16.R7 ---------------------------------------------------------------------------------

// A range aggregation iterates src.Numbers(d) and, inside that loop, feeds d to the nested
// aggregations, which call Numbers(d) of other sources. A result built in scratch space
// kept on the match (or on the source) is overwritten by the inner call while the outer
// loop is still reading it. A slice that a function builds with append and returns must
// start from nil / make in that call.
func ruleC16R7(c *Ctx) {
	n := 0
	for _, fn := range c.FuncsIn(pkgSearch) {
		if fn.Signature.Results().Len() != 1 {
			continue
		}
		if _, isSlice := fn.Signature.Results().At(0).Type().Underlying().(*types.Slice); !isSlice {
			continue
		}
		builds := false
		var bad *types.Var
		eachInstr(fn, func(in ssa.Instruction) {
			r, ok := in.(*ssa.Return)
			if !ok || len(r.Results) != 1 {
				return
			}
			if dependsOnStop(r.Results[0], func(y ssa.Value) bool {
				call, ok := y.(*ssa.Call)
				return ok && builtinName(call.Common()) == "append"
			}, func(y ssa.Value) bool {
				call, ok := y.(*ssa.Call)
				return ok && builtinName(call.Common()) != "append"
			}) {
				builds = true
				if f := backingFromField(r.Results[0], map[ssa.Value]bool{}); f != nil {
					bad = f
				}
			}
		})
		if !builds {
			continue
		}
		n++
		name := ""
		if bad != nil {
			name = bad.Name()
		}
		c.Check(bad == nil, "list built by "+FuncName(fn)+" is owned by its caller", c.Pos(fn.Pos()), "grown from nil or make in the call",
			"the returned list is built in the reused buffer '"+name+"': a nested aggregation that asks the same match for another list overwrites it while the outer aggregation is still iterating (counts and sums of multi-valued fields come out wrong)")
	}
}

// storesThrough: the stores of fn into fields of the object v points to.
func storesThrough(fn *ssa.Function, v ssa.Value) []*ssa.Store {
	var rv []*ssa.Store
	eachInstr(fn, func(in ssa.Instruction) {
		if st, ok := in.(*ssa.Store); ok {
			if fa, ok := st.Addr.(*ssa.FieldAddr); ok && fa.X == v {
				rv = append(rv, st)
			}
		}
	})
	return rv
}

func init() {
	registerRule(&RuleInfo{ID: "C02.R6", Title: "the root that is persisted and the acks released after it are taken in one critical section", Floor: 1, Run: ruleC02R6,
		Covers: "where the persister goroutine reads Writer.root for the snapshot it persists and where it reads the pending acks it releases afterwards"})
}

// ---- C02.R6 ---------------------------------------------------------------------------------

// C02.R3 checks each function that touches the ack fields on its own. The protocol also has
// a cross-function side: the snapshot handed to the persisting callee and the acks that are
// released once it succeeded must have been read by ONE function (whose single critical
// section C02.R3 then checks). A root taken by a getter in one section and the acks detached
// by a helper in another lets a batch slip in between: its ack is released for a snapshot
// that does not contain it.
func ruleC02R6(c *Ctx) {
	a := c.Idx()
	m := newDurabilityModel(c.Program)
	roots, _ := persisterRoots(c.Program)
	if len(roots) != 1 {
		c.Undecided("persister goroutine root", "-", "no unique persister goroutine")
		return
	}
	root := roots[0]
	// functions in which a given field is loaded, as far as that load can flow into v
	readers := func(v ssa.Value, fields ...*types.Var) map[*ssa.Function]bool {
		rv := map[*ssa.Function]bool{}
		dependsOn(v, func(y ssa.Value) bool {
			if fa, ok := y.(*ssa.FieldAddr); ok {
				for _, f := range fields {
					if fieldVar(fa) == f {
						rv[fa.Parent()] = true
					}
				}
			}
			return false
		})
		return rv
	}
	rootReaders := map[*ssa.Function]bool{}
	ackReaders := map[*ssa.Function]bool{}
	nPersist, nAck := 0, 0
	eachInstr(root, func(in ssa.Instruction) {
		if ci, ok := in.(*ssa.Call); ok {
			if callee := ci.Common().StaticCallee(); callee != nil && c.InRepo(callee) && callee.Blocks != nil && m.guarantees(callee) {
				for _, arg := range ci.Common().Args {
					if namedOf(arg.Type()) == a.Snapshot {
						nPersist++
						for f := range readers(arg, a.WRoot) {
							rootReaders[f] = true
						}
					}
				}
			}
		}
	})
	for _, s := range ackSites(c.Program) {
		if s.fn != root && enclosingTop(s.fn) != root {
			continue
		}
		var v ssa.Value
		switch x := s.in.(type) {
		case *ssa.Send:
			v = x.Chan
		case ssa.CallInstruction:
			if builtinName(x.Common()) == "close" {
				v = x.Common().Args[0]
			} else {
				v = x.Common().Value
			}
		}
		if v == nil {
			continue
		}
		nAck++
		for f := range readers(v, a.WRootPersisted, a.WPersistedCallbacks) {
			ackReaders[f] = true
		}
	}
	key := "root and pending acks of a persist round are read by one function of " + FuncName(root)
	if nPersist == 0 || nAck == 0 || len(rootReaders) == 0 || len(ackReaders) == 0 {
		c.Undecided(key, c.Pos(root.Pos()), fmt.Sprintf("could not locate the reads (persist calls with a snapshot: %d, ack sites: %d, readers of root: %d, readers of the acks: %d)", nPersist, nAck, len(rootReaders), len(ackReaders)))
		return
	}
	var common, rn, an []string
	for f := range rootReaders {
		rn = append(rn, FuncName(f))
		if ackReaders[f] {
			common = append(common, FuncName(f))
		}
	}
	for f := range ackReaders {
		an = append(an, FuncName(f))
	}
	sort.Strings(common)
	sort.Strings(rn)
	sort.Strings(an)
	onlyCommon := len(common) > 0 && len(common) == len(rootReaders) && len(common) == len(ackReaders)
	c.Check(onlyCommon, key, c.Pos(root.Pos()), "both are read in "+strings.Join(common, ", ")+" (whose single critical section C02.R3 checks)",
		fmt.Sprintf("the snapshot that is persisted is read from Writer.root in %v, the acks released after the persist are read in %v: they are not taken together, so a batch introduced in between is acknowledged for a snapshot that does not contain it", rn, an))
}

func init() {
	registerRule(&RuleInfo{ID: "C02.R7", Title: "nothing that can fail follows the commit of a persist round", Floor: 1, Run: ruleC02R7,
		Covers: "every function of package index that calls DeletionPolicy.Commit and has an error result"})
}

// ---- C02.R7 ---------------------------------------------------------------------------------

// A persist round that reports an error is retried with the same epoch. Commit is not
// idempotent (a second Commit of the epoch makes it deletable while it is the newest on
// disk). Therefore Commit must be the point of no return: on every path that passed it, the
// function returns a nil error.
func ruleC02R7(c *Ctx) {
	a := c.Idx()
	n := 0
	// committers: functions with an error result that call Commit, or call such a function
	// (a caller of a committer is a committer too: a failure after the callee succeeded has the
	// same effect as a failure after Commit itself)
	committers := map[*ssa.Function]bool{}
	for changed := true; changed; {
		changed = false
		for _, fn := range c.FuncsIn(pkgIndex) {
			if committers[fn] || fnErrIdx(fn) < 0 || fn.Parent() != nil {
				continue
			}
			eachInstr(fn, func(in ssa.Instruction) {
				cc := callOf(in)
				if cc == nil {
					return
				}
				if callsIfaceMethod(cc, a.DPCommit) {
					committers[fn] = true
				} else if cal := staticCallee(cc); cal != nil && committers[cal] {
					if _, isCall := in.(*ssa.Call); isCall {
						committers[fn] = true
					}
				}
			})
			if committers[fn] {
				changed = true
			}
		}
	}
	roots, _ := persisterRoots(c.Program)
	fromPersister := c.Light().Reach(roots...)
	const fCommitted uint64 = 1
	directIn := func(fn *ssa.Function) []ssa.Instruction {
		var rv []ssa.Instruction
		eachInstr(fn, func(in ssa.Instruction) {
			if cc := callOf(in); cc != nil && callsIfaceMethod(cc, a.DPCommit) {
				rv = append(rv, in)
			}
		})
		return rv
	}
	sm := &Summarizer{}
	sm.OnInstr = func(fn *ssa.Function, in ssa.Instruction, st *PState) bool {
		if cc := callOf(in); cc != nil && callsIfaceMethod(cc, a.DPCommit) {
			st.Flags |= fCommitted
		}
		return true
	}
	sm.OnEdge = func(from, to *ssa.BasicBlock, st *PState) {
		// a loop that commits one item per round (loading all snapshots at open): each round is its own
		for _, cm := range directIn(from.Parent()) {
			if h := enclosingLoopHeader(cm.Block()); h != nil && to == h && naturalLoop(h)[from] {
				st.Flags &^= fCommitted
			}
		}
	}
	for _, fn := range c.FuncsIn(pkgIndex) {
		ei := fnErrIdx(fn)
		if ei < 0 || fn.Parent() != nil || !committers[fn] {
			continue
		}
		direct := directIn(fn)
		if len(direct) == 0 && !fromPersister[fn] {
			continue // a caller outside the persist round: its failure is not retried with the same epoch
		}
		n++
		key := "commit is the last fallible step in " + FuncName(fn)
		outs := sm.Summary(fn)
		if sm.Exceeded || len(outs) == 0 {
			c.Undecided(key, c.Pos(fn.Pos()), "path exploration did not finish")
			sm.Exceeded = false
			continue
		}
		bad := 0
		for _, o := range outs {
			if o.Flags&fCommitted != 0 && ei < len(o.Results) && o.Results[ei] != TriNo {
				bad++
			}
		}
		pos := c.Pos(fn.Pos())
		if len(direct) > 0 {
			pos = c.Pos(direct[0].Pos())
		}
		c.Check(bad == 0, key, pos, "every path through Commit (directly or in a callee) ends in a nil error",
			"a path that already committed the snapshot (itself or in a callee) returns a possibly non-nil error: the round is retried and commits the same epoch again (the deletion policy then counts it twice and removes it while it is the newest)")
	}
}

func init() {
	registerRule(&RuleInfo{ID: "C06.R7", Title: "doc-number translations are keyed by the segment they were computed for", Floor: 1, Run: ruleC06R7,
		Covers: "every map update that fills segmentMerge.oldNewDocNums"})
}

// ---- C06.R7 ---------------------------------------------------------------------------------

// merge() returns one old->new doc-number table per input segment, in input order. The i-th
// table must be stored under the id of the i-th input. The id must be read, at the time of
// the update, from the list the inputs were taken from (task.Segments[i].ID(), ss.id of
// snapshot.segment[idx]): an id list copied earlier can be in another order than the inputs
// (the planner sorts by size, a later step may re-sort), and a deletion that races with the
// merge is then translated with the wrong segment's table.
func ruleC06R7(c *Ctx) {
	fMap := c.Field(pkgIndex, "segmentMerge", "oldNewDocNums")
	n := 0
	for _, fn := range c.FuncsIn(pkgIndex) {
		eachInstr(fn, func(in ssa.Instruction) {
			mu, ok := in.(*ssa.MapUpdate)
			if !ok {
				return
			}
			// the map is (or becomes) the oldNewDocNums of a segmentMerge
			isTarget := dependsOnField(mu.Map, fMap)
			if !isTarget {
				eachInstr(fn, func(g ssa.Instruction) {
					if st, ok := g.(*ssa.Store); ok {
						if fa, ok := st.Addr.(*ssa.FieldAddr); ok && fieldVar(fa) == fMap && (st.Val == mu.Map || sameBase(st.Val, mu.Map) || dependsOn(st.Val, func(y ssa.Value) bool { return y == mu.Map })) {
							isTarget = true
						}
					}
				})
			}
			if !isTarget {
				return
			}
			n++
			key := fmt.Sprintf("translation table #%d stored in %s is keyed by its own segment", n, FuncName(fn))
			viaCopy := dependsOn(mu.Key, func(y ssa.Value) bool {
				u, ok := isLoad(y)
				if !ok {
					return false
				}
				ia, ok := u.X.(*ssa.IndexAddr)
				if !ok {
					return false
				}
				// an element of a list of plain ids built in this function
				_, isMk := ia.X.(*ssa.MakeSlice)
				if !isMk {
					if l2, ok := isLoad(ia.X); ok {
						if al, ok := l2.X.(*ssa.Alloc); ok && al.Referrers() != nil {
							for _, r := range *al.Referrers() {
								if st, ok := r.(*ssa.Store); ok && st.Addr == ssa.Value(al) {
									if _, mk := st.Val.(*ssa.MakeSlice); mk {
										isMk = true
									}
								}
							}
						}
					}
				}
				if !isMk {
					return false
				}
				b, ok := u.Type().Underlying().(*types.Basic)
				return ok && b.Info()&types.IsInteger != 0
			})
			c.Check(!viaCopy, key, c.Pos(mu.Pos()), "the key is read from the input list at the time of the update",
				"the key comes from a list of ids copied earlier in this function, not from the list the merge inputs are taken from: when that list is reordered in between, each table is stored under another segment's id")
		})
	}
}

func init() {
	registerRule(&RuleInfo{ID: "C12.R6", Title: "a snapshot is accepted only if the decoder consumed the whole body", Floor: 1, Run: ruleC12R6,
		Covers: "the byte count returned by Snapshot.ReadFrom in every snapshot loader"})
}

// ---- C12.R6 ---------------------------------------------------------------------------------

// The decoder stops after the last record it was promised; the checksum is computed over
// what the buffered reader happened to pull. Bytes between the last record and the checksum
// trailer are neither decoded nor necessarily hashed, so a file with such a tail is a byte
// string that is not an encoding of the state it is accepted as. The loader must compare
// the number of bytes ReadFrom decoded with Len()-crcWidth and return a snapshot only when
// they are equal.
func ruleC12R6(c *Ctx) {
	a := c.Idx()
	readFrom := c.Method(pkgIndex, "Snapshot", "ReadFrom")
	crcWidth := constIntOf(c.Program, pkgIndex, "crcWidth")
	for _, fn := range snapshotLoaders(c.Program) {
		var readCall *ssa.Call
		var data ssa.Value
		eachInstr(fn, func(in ssa.Instruction) {
			if ci, ok := in.(*ssa.Call); ok {
				if ci.Common().StaticCallee() == readFrom {
					readCall = ci
				}
				if a.isDirCall(ci.Common(), a.DirLoad, a.KindSnapshot) {
					data = resultValue(ci, 0)
				}
			}
		})
		key := "decoded length equals the body length in " + FuncName(fn)
		if readCall == nil || data == nil {
			c.Undecided(key, c.Pos(fn.Pos()), "the loader has no ReadFrom call on loaded data")
			continue
		}
		count := resultValue2(readCall, 0)
		var conds []*ssa.BinOp
		if count != nil {
			eachInstr(fn, func(in ssa.Instruction) {
				b, ok := in.(*ssa.BinOp)
				if !ok || b.Op != token.NEQ && b.Op != token.EQL {
					return
				}
				isCount := func(v ssa.Value) bool { return v == count || dependsOn(v, func(y ssa.Value) bool { return y == count }) }
				isBody := func(v ssa.Value) bool {
					return dependsOn(v, func(y ssa.Value) bool {
						bo, ok := y.(*ssa.BinOp)
						if !ok || bo.Op != token.SUB {
							return false
						}
						k, okc := constInt(bo.Y)
						return okc && k == crcWidth && isDataLen(bo.X, data)
					})
				}
				if isCount(b.X) && isBody(b.Y) || isCount(b.Y) && isBody(b.X) {
					conds = append(conds, b)
				}
			})
		}
		if len(conds) == 0 {
			c.Violate(key, c.Pos(readCall.Pos()), "the number of bytes the decoder consumed is never compared with Len()-crcWidth: a file whose records end before the checksum trailer (undecoded, possibly unhashed bytes in between) is accepted")
			continue
		}
		var problems []string
		ex := &Explorer{Fn: fn, Keep: map[ssa.Value]bool{}}
		for _, b := range conds {
			ex.Keep[b] = true
		}
		ex.OnReturn = func(r *ssa.Return, st *PState) {
			if len(r.Results) == 0 || st.Eval(r.Results[0]) == TriNo {
				return
			}
			okPath := false
			for _, b := range conds {
				t := st.Eval(b)
				if b.Op == token.NEQ && t == TriNo || b.Op == token.EQL && t == TriYes {
					okPath = true
				}
			}
			if !okPath {
				problems = append(problems, "a snapshot is returned at "+c.Pos(r.Pos())+" on a path on which the decoded length was not found equal to the body length")
			}
		}
		ex.Run()
		if ex.Exceeded {
			c.Undecided(key, c.Pos(readCall.Pos()), "path exploration did not finish")
			continue
		}
		c.Check(len(problems) == 0, key, c.Pos(readCall.Pos()), "every return of a snapshot passed `decoded == Len()-crcWidth`", uniqJoin(problems))
	}
}

func init() {
	registerRule(&RuleInfo{ID: "C10.R4", Title: "the successor of a prefix-coded term is taken in the coder's digit width", Floor: 1, Run: ruleC10R4,
		Covers: "the function that steps from one term to the next in termRange.Enumerate, against the digit mask of numeric.NewPrefixCodedInt64Prealloc"})
}

// ---- C10.R4 ---------------------------------------------------------------------------------

// The coder writes 7-bit digits (`byte(bits & 0x7f)`). A range [start, end] of terms is
// enumerated by repeatedly taking the successor of a term. A successor function that carries
// at 0x100 instead of 0x80 walks through 128 byte values per digit that no term can contain:
// a range that crosses k digit boundaries costs 256^k steps, so a query for two adjacent
// values such as [4.999999999999999, 5] practically never returns. Writer and reader must
// agree on the digit width: the successor function must compare the incremented byte with the
// coder's mask (or mask+1).
func ruleC10R4(c *Ctx) {
	coder := c.Func(modPath+"/numeric", "NewPrefixCodedInt64Prealloc")
	mask := int64(-1)
	eachInstr(coder, func(in ssa.Instruction) {
		if b, ok := in.(*ssa.BinOp); ok && b.Op == token.AND {
			if k, okc := constInt(b.Y); okc && k > 0 && k < 255 {
				mask = k
			}
		}
	})
	if mask < 0 {
		c.Undecided("digit mask of the prefix coder", c.Pos(coder.Pos()), "no `bits & mask` found in the coder")
		return
	}
	enum := c.Method(pkgSearcher, "termRange", "Enumerate")
	n := 0
	eachInstr(enum, func(in ssa.Instruction) {
		ci, ok := in.(*ssa.Call)
		if !ok {
			return
		}
		succ := ci.Common().StaticCallee()
		if succ == nil || succ.Blocks == nil || funcPkgPath(succ) != pkgSearcher {
			return
		}
		// a successor function: []byte -> []byte that adds one to an element
		incr := false
		eachInstr(succ, func(g ssa.Instruction) {
			if st, ok := g.(*ssa.Store); ok {
				if _, isEl := st.Addr.(*ssa.IndexAddr); isEl {
					if b, ok := st.Val.(*ssa.BinOp); ok && b.Op == token.ADD {
						if k, okc := constInt(b.Y); okc && k == 1 {
							incr = true
						}
					}
				}
			}
		})
		if !incr {
			return
		}
		n++
		usesWidth := false
		eachInstr(succ, func(g ssa.Instruction) {
			b, ok := g.(*ssa.BinOp)
			if !ok {
				return
			}
			for _, op := range []ssa.Value{b.X, b.Y} {
				if k, okc := constInt(op); okc && (k == mask || k == mask+1) {
					switch b.Op {
					case token.LSS, token.LEQ, token.GTR, token.GEQ, token.EQL, token.NEQ, token.AND, token.AND_NOT:
						usesWidth = true
					}
				}
			}
		})
		c.Check(usesWidth, "successor of a term in termRange.Enumerate uses the coder's digit width", c.Pos(ci.Pos()),
			fmt.Sprintf("%s carries at the coder's digit mask %#x", FuncName(succ), mask),
			fmt.Sprintf("%s adds one to a byte of the term and carries only when the byte wraps to 0, while the coder (%s) writes %d-valued digits (mask %#x): every digit boundary inside a range costs %d useless steps, a narrow range crossing several boundaries never finishes", FuncName(succ), FuncName(coder), mask+1, mask, 255-mask))
	})
	if n == 0 {
		c.Undecided("successor of a term in termRange.Enumerate", c.Pos(enum.Pos()), "no successor function found")
	}
}

func init() {
	registerRule(&RuleInfo{ID: "C04.R7", Title: "a postings iterator is not used after it was given back to the pool", Floor: 1, Run: ruleC04R7,
		Covers: "every call that hands a postings iterator to Snapshot.fieldTFRs (directly or through Close) and what follows it on each path"})
}

// ---- C04.R7 ---------------------------------------------------------------------------------

// Once an iterator sits in the snapshot's per-field pool the next PostingsIterator call pops
// it and re-initialises it. An iterator that is recycled and then still used (or recycled a
// second time at its final Close) is shared by two scans: the same scan repeated on one
// unchanged Reader returns mixed postings. After a call that recycles x, x must not be
// touched again on that path.
func ruleC04R7(c *Ctx) {
	pool := c.Field(pkgIndex, "Snapshot", "fieldTFRs")
	itT := c.Named(pkgIndex, "postingsIterator")
	// recyclers: functions that put parameter k into the pool, or pass their parameter k to a recycler
	type rk struct {
		fn *ssa.Function
		k  int
	}
	recyc := map[*ssa.Function]int{}
	for _, fn := range c.FuncsIn(pkgIndex) {
		eachInstr(fn, func(in ssa.Instruction) {
			mu, ok := in.(*ssa.MapUpdate)
			if !ok || !dependsOnField(mu.Map, pool) {
				return
			}
			for k, p := range fn.Params {
				if namedOf(p.Type()) == itT && dependsOn(mu.Value, func(y ssa.Value) bool { return y == ssa.Value(p) }) {
					recyc[fn] = k
				}
			}
		})
	}
	for changed := true; changed; {
		changed = false
		for _, fn := range c.FuncsIn(pkgIndex) {
			if _, done := recyc[fn]; done {
				continue
			}
			eachInstr(fn, func(in ssa.Instruction) {
				ci, ok := in.(*ssa.Call)
				if !ok {
					return
				}
				k, isR := recyc[ci.Common().StaticCallee()]
				if !isR || k >= len(ci.Common().Args) {
					return
				}
				for pk, p := range fn.Params {
					if ci.Common().Args[k] == ssa.Value(p) {
						// a pure wrapper: nothing of p is used after the call
						recyc[fn] = pk
						changed = true
					}
				}
			})
		}
	}
	n := 0
	for _, fn := range c.FuncsIn(pkgIndex) {
		eachInstr(fn, func(in ssa.Instruction) {
			ci, ok := in.(*ssa.Call)
			if !ok {
				return
			}
			k, isR := recyc[ci.Common().StaticCallee()]
			if !isR || k >= len(ci.Common().Args) {
				return
			}
			x := ci.Common().Args[k]
			n++
			key := fmt.Sprintf("iterator recycled at call #%d in %s is not used afterwards", n, FuncName(fn))
			var used []string
			uses := func(g ssa.Instruction) bool {
				for _, op := range g.Operands(nil) {
					if *op == nil {
						continue
					}
					if *op == x {
						return true
					}
					if fa, ok := (*op).(*ssa.FieldAddr); ok && fa.X == x {
						return true
					}
				}
				return false
			}
			ex := &Explorer{Fn: fn}
			ex.OnInstr = func(g ssa.Instruction, st *PState) bool {
				if g == ssa.Instruction(ci) {
					return true
				}
				switch g.(type) {
				case *ssa.Return, *ssa.Jump, *ssa.If, *ssa.RunDefers:
					if _, isRet := g.(*ssa.Return); !isRet {
						return true
					}
				}
				if _, isFA := g.(*ssa.FieldAddr); isFA {
					return true // judged where the address is used
				}
				if uses(g) {
					used = append(used, c.Pos(g.Pos()))
					return false
				}
				return true
			}
			ex.RunAfter(ci, newPState())
			if ex.Exceeded {
				c.Undecided(key, c.Pos(ci.Pos()), "path exploration did not finish")
				return
			}
			c.Check(len(used) == 0, key, c.Pos(ci.Pos()), "nothing touches the iterator after it went back to the pool",
				"the iterator is used at "+uniqJoin(used)+" after it was put into the pool: the next PostingsIterator call on that field re-initialises the very object this scan continues with (and its final Close pools it a second time)")
		})
	}
}

func init() {
	registerRule(&RuleInfo{ID: "C07.R8", Title: "a segment-local doc number is used with the segment it was computed for", Floor: 3, Run: ruleC07R8,
		Covers: "every use of the local number returned by Snapshot.segmentIndexAndLocalDocNumFromGlobal as an argument of a per-segment call"})
	registerRule(&RuleInfo{ID: "C07.R9", Title: "a failed constructor's children are closed by one party only", Floor: 0, Run: ruleC07R9,
		Covers: "call sites in the query and searcher packages that close a list of searchers after the callee they handed the list to failed"})
	registerRule(&RuleInfo{ID: "C09.R6", Title: "a hit enters the store only after it was compared with the search-after key", Floor: 1, Run: ruleC09R6,
		Covers: "every path of the collectors from a hit to the store when a search-after key is set"})
	registerRule(&RuleInfo{ID: "C12.R7", Title: "bytes peeked from the read buffer are not retained by a decoded value", Floor: 0, Run: ruleC12R7,
		Covers: "every call in package index that builds a value on top of the bytes it is given (roaring FromBuffer / FromUnsafeBytes)"})
}

// ---- C07.R8 ---------------------------------------------------------------------------------

// segmentIndexAndLocalDocNumFromGlobal(n) yields a PAIR: the local number is meaningful in
// that one segment only. Passing it to another segment's iterator (a loop that walks on to the
// following segments with the same local number) skips every posting of those segments whose
// local number is smaller.
func ruleC07R8(c *Ctx) {
	pairFn := c.Method(pkgIndex, "Snapshot", "segmentIndexAndLocalDocNumFromGlobal")
	n := 0
	for _, fn := range c.FuncsIn(pkgIndex) {
		eachInstr(fn, func(in ssa.Instruction) {
			ci, ok := in.(*ssa.Call)
			if !ok || ci.Common().StaticCallee() != pairFn {
				return
			}
			idx, local := resultValue2(ci, 0), resultValue2(ci, 1)
			if local == nil || local.Referrers() == nil {
				return
			}
			for _, r := range *local.Referrers() {
				use, ok := r.(*ssa.Call)
				if !ok {
					continue
				}
				isArg := false
				for _, a := range use.Common().Args {
					if a == local {
						isArg = true
					}
				}
				if !isArg {
					continue
				}
				n++
				key := fmt.Sprintf("local doc number use #%d in %s", n, FuncName(fn))
				// the segment the call addresses: receiver / first argument taken from a per-segment list
				recv, _ := recvAndArgs(use.Common())
				byIdx := idx != nil && recv != nil && dependsOn(recv, func(y ssa.Value) bool { return y == idx })
				viaField := false
				if !byIdx && recv != nil && idx != nil {
					// the index was first stored into a field (i.segmentOffset = segIndex) and read back
					eachInstr(fn, func(g ssa.Instruction) {
						if st, ok := g.(*ssa.Store); ok && st.Val == idx {
							if fa, ok := st.Addr.(*ssa.FieldAddr); ok && dependsOnField(recv, fieldVar(fa)) && st.Block().Dominates(use.Block()) {
								viaField = true
							}
						}
					})
				}
				h := enclosingLoopHeader(use.Block())
				inLoop := h != nil && !naturalLoop(h)[ci.Block()]
				c.Check((byIdx || viaField) && !inLoop, key, c.Pos(use.Pos()), "addresses the segment of the paired index, outside any loop over segments",
					fmt.Sprintf("the local number is handed to a per-segment call that is not tied to the paired segment index (indexed by it: %v, through a field set from it: %v, inside a loop that the pair was computed outside of: %v): in another segment the same local number skips postings", byIdx, viaField, inLoop))
			}
		})
	}
}

// ---- C07.R9 ---------------------------------------------------------------------------------

// closesElementsOf: fn calls Close on elements of the slice value s (a loop over s).
func closesElementsOf(fn *ssa.Function, s ssa.Value) []ssa.Instruction {
	var rv []ssa.Instruction
	eachInstr(fn, func(in ssa.Instruction) {
		cc := callOf(in)
		if cc == nil || callMethodName(cc) != "Close" {
			return
		}
		recv, _ := recvAndArgs(cc)
		if recv == nil {
			return
		}
		if dependsOnStop(recv, func(y ssa.Value) bool {
			ia, ok := y.(*ssa.IndexAddr)
			return ok && (ia.X == s || sameBase(ia.X, s))
		}, func(y ssa.Value) bool {
			_, isCall := y.(*ssa.Call)
			return isCall
		}) {
			rv = append(rv, in)
		}
	})
	return rv
}

// When a constructor that was handed a list of open searchers fails, somebody has to close
// them - but only one party. A caller that closes the list on the callee's error path while
// the callee (on an error path of its own) closes its parameter closes every searcher twice;
// a term searcher's postings iterator then sits twice in the snapshot's pool and is handed to
// two searchers of a later query.
func ruleC07R9(c *Ctx) {
	n := 0
	var fns []*ssa.Function
	for _, fn := range c.SrcFuncs() {
		p := funcPkgPath(fn)
		if p == modPath || strings.HasPrefix(p, pkgSearch) {
			fns = append(fns, fn)
		}
	}
	for _, fn := range fns {
		eachInstr(fn, func(in ssa.Instruction) {
			ci, ok := in.(*ssa.Call)
			if !ok {
				return
			}
			callee := ci.Common().StaticCallee()
			if callee == nil || callee.Blocks == nil || fnErrIdx(callee) < 0 {
				return
			}
			ev := errResult(ci)
			if ev == nil {
				return
			}
			for k, arg := range ci.Common().Args {
				if _, isSlice := arg.Type().Underlying().(*types.Slice); !isSlice || k >= len(callee.Params) {
					continue
				}
				// the caller closes the elements of arg behind the callee's error
				var callerCloses []ssa.Instruction
				for _, cl := range closesElementsOf(fn, arg) {
					dominated := false
					eachInstr(fn, func(g ssa.Instruction) {
						iff, ok := g.(*ssa.If)
						if !ok {
							return
						}
						b, ok := iff.Cond.(*ssa.BinOp)
						if !ok || b.Op != token.NEQ && b.Op != token.EQL || b.X != ev && b.Y != ev {
							return
						}
						edge := 0
						if b.Op == token.EQL {
							edge = 1
						}
						if edgeDominates(iff, edge, cl.Block()) {
							dominated = true
						}
					})
					if dominated {
						callerCloses = append(callerCloses, cl)
					}
				}
				if len(callerCloses) == 0 {
					continue
				}
				n++
				key := fmt.Sprintf("searchers closed after the failure of %s in %s", FuncName(callee), FuncName(fn))
				// does the callee (or a function it hands the list on to) close its parameter too?
				var calleeCloses func(f *ssa.Function, pk int, d int) string
				calleeCloses = func(f *ssa.Function, pk int, d int) string {
					if f == nil || f.Blocks == nil || pk >= len(f.Params) || d > 3 {
						return ""
					}
					if cl := closesElementsOf(f, f.Params[pk]); len(cl) > 0 {
						return c.Pos(cl[0].Pos())
					}
					res := ""
					eachInstr(f, func(g ssa.Instruction) {
						c2, ok := g.(*ssa.Call)
						if !ok || res != "" {
							return
						}
						for j, a := range c2.Common().Args {
							if a == ssa.Value(f.Params[pk]) {
								res = calleeCloses(c2.Common().StaticCallee(), j, d+1)
							}
						}
					})
					return res
				}
				where := calleeCloses(callee, k, 0)
				c.Check(where == "", key, c.Pos(callerCloses[0].Pos()), "the callee does not close the list it was given",
					"the caller closes the searchers when the callee fails, and the callee closes the same list at "+where+": every searcher is closed twice and its postings iterator is put into the pool twice")
			}
		})
	}
	if n == 0 {
		c.OK("no caller closes a list of searchers after a failed constructor", "-", "nothing to pair")
	}
}

// ---- C09.R6 ---------------------------------------------------------------------------------

// With a search-after key set, a hit at or before the key belongs to an earlier page. It must
// be compared with the key on EVERY path to the store, also once the store has overflowed
// (the "lowest hit already pushed out" shortcut must not replace that comparison).
func ruleC09R6(c *Ctx) {
	cmp := c.Method(pkgSearch, "SortOrder", "Compare")
	dm := c.Named(pkgSearch, "DocumentMatch")
	n := 0
	for _, fn := range c.FuncsIn(pkgSearch + "/collector") {
		if fn.Parent() != nil {
			continue
		}
		// the pseudo-match field (assigned only from literals, see C09.R4) and the store insertion
		var afterField *types.Var
		var adds []ssa.Instruction
		eachInstr(fn, func(in ssa.Instruction) {
			cc := callOf(in)
			if cc == nil {
				return
			}
			if cc.IsInvoke() && strings.HasPrefix(cc.Method.Name(), "Add") {
				for _, a := range cc.Args {
					if namedOf(a.Type()) == dm {
						adds = append(adds, in)
					}
				}
			}
		})
		if len(adds) == 0 {
			continue
		}
		st0, ok := methodRecvNamed(fn).Underlying().(*types.Struct)
		if methodRecvNamed(fn) == nil || !ok {
			continue
		}
		for i := 0; i < st0.NumFields(); i++ {
			if st0.Field(i).Name() == "searchAfter" && namedOf(st0.Field(i).Type()) == dm {
				afterField = st0.Field(i)
			}
		}
		if afterField == nil {
			continue
		}
		n++
		key := "hits of " + FuncName(fn) + " are compared with the search-after key before they reach the store"
		const fCompared uint64 = 1
		var problems []string
		sm := &Summarizer{}
		sm.Follow = func(f *ssa.Function) bool { return methodRecvNamed(f) == methodRecvNamed(fn) }
		sm.OnInstr = func(_ *ssa.Function, in ssa.Instruction, st *PState) bool {
			if ci, ok := in.(*ssa.Call); ok && ci.Common().StaticCallee() == cmp {
				for _, a := range ci.Common().Args {
					if f, _ := loadedField(a); f == afterField {
						st.Flags |= fCompared
					}
				}
			}
			return true
		}
		// whether a key is set at all: the nil test of the field
		var afterLoads []ssa.Value
		eachInstr(fn, func(in ssa.Instruction) {
			if v, ok := in.(ssa.Value); ok {
				if f, _ := loadedField(v); f == afterField {
					afterLoads = append(afterLoads, v)
				}
			}
		})
		ex := sm.Explorer(fn)
		for _, v := range afterLoads {
			if ex.Keep == nil {
				ex.Keep = map[ssa.Value]bool{}
			}
			ex.Keep[v] = true
		}
		base := ex.OnInstr
		ex.OnInstr = func(in ssa.Instruction, st *PState) bool {
			if base != nil {
				base(in, st)
			}
			for _, ad := range adds {
				if in == ad && st.Flags&fCompared == 0 {
					known := false
					for _, v := range afterLoads {
						if st.Eval(v) == TriNo {
							known = true // no key set on this path
						}
					}
					if !known {
						problems = append(problems, "a hit reaches the store at "+c.Pos(in.Pos())+" on a path where a search-after key may be set and the hit was not compared with it")
					}
				}
			}
			return true
		}
		ex.Run()
		if ex.Exceeded || sm.Exceeded {
			c.Undecided(key, c.Pos(fn.Pos()), "path exploration did not finish")
			continue
		}
		c.Check(len(problems) == 0, key, c.Pos(fn.Pos()), "every path to the store either knows that no key is set or passed Compare(hit, key)", uniqJoin(problems))
	}
}

// ---- C12.R7 ---------------------------------------------------------------------------------

// bufio.Reader.Peek returns a view of the reader's internal buffer, valid until the next
// read. A decoder that builds a value ON TOP of such bytes (roaring's FromBuffer /
// FromUnsafeBytes keep pointing into the slice) decodes correctly and then silently changes
// when the buffer is refilled: a snapshot reads back with other deleted sets, checksum intact.
func ruleC12R7(c *Ctx) {
	isPeek := func(y ssa.Value) bool {
		call, ok := y.(*ssa.Call)
		if !ok {
			return false
		}
		f := call.Common().StaticCallee()
		return f != nil && f.Pkg != nil && f.Pkg.Pkg.Path() == "bufio" && f.Name() == "Peek"
	}
	n := 0
	for _, fn := range c.FuncsIn(pkgIndex) {
		eachInstr(fn, func(in ssa.Instruction) {
			ci, ok := in.(*ssa.Call)
			if !ok {
				return
			}
			f := ci.Common().StaticCallee()
			if f == nil || f.Pkg == nil || !strings.HasSuffix(f.Pkg.Pkg.Path(), "/roaring") || f.Name() != "FromBuffer" && f.Name() != "FromUnsafeBytes" && f.Name() != "FrozenView" {
				return
			}
			n++
			key := fmt.Sprintf("retaining decode #%d in %s", n, FuncName(fn))
			bad := false
			for _, a := range ci.Common().Args {
				if _, isSlice := a.Type().Underlying().(*types.Slice); isSlice && dependsOn(a, isPeek) {
					bad = true
				}
			}
			c.Check(!bad, key, c.Pos(ci.Pos()), "the bytes do not come from a Peek of the read buffer", "a bitmap is built on top of bytes that are a view of the buffered reader's internal buffer: it changes when the buffer is refilled")
		})
	}
	if n == 0 {
		c.OK("no decoded value of package index is built on top of its input bytes", "-", "no retaining decode call present")
	}
}

func init() {
	registerRule(&RuleInfo{ID: "C15.R5", Title: "the mutexes of package index are always taken in one order", Floor: 1, Run: ruleC15R5,
		Covers: "every pair (A held, B acquired) over the mutex fields of package index, through calls"})
	registerRule(&RuleInfo{ID: "C19.R6", Title: "the merge budget is computed from the eligible segments only", Floor: 1, Run: ruleC19R6,
		Covers: "the accumulator handed to CalcBudget in package mergeplan"})
}

// ---- C15.R5 ---------------------------------------------------------------------------------

// Lock-order graph over the mutex FIELDS of package index (Writer.rootLock, Snapshot.m,
// Snapshot.m2, ...): an edge A -> B when some function acquires B (itself or in a callee)
// while it holds A. Two fields that are taken in both orders can deadlock: the introducer
// holding rootLock and waiting for a snapshot's m2 while a searcher closing an iterator
// holds that m2 and waits for rootLock - then every Batch, Reader() and Close hangs.
func ruleC15R5(c *Ctx) {
	type lockEv struct {
		in    ssa.Instruction
		field *types.Var
		kind  string
	}
	mutexField := func(v ssa.Value) *types.Var {
		fa, ok := v.(*ssa.FieldAddr)
		if !ok {
			return nil
		}
		fv := fieldVar(fa)
		if n := namedOf(fv.Type()); n != nil && n.Obj().Pkg() != nil && n.Obj().Pkg().Path() == "sync" && (n.Obj().Name() == "Mutex" || n.Obj().Name() == "RWMutex") {
			return fv
		}
		return nil
	}
	fns := c.FuncsIn(pkgIndex)
	events := map[*ssa.Function][]lockEv{}
	for _, fn := range fns {
		eachInstr(fn, func(in ssa.Instruction) {
			cc := callOf(in)
			if cc == nil {
				return
			}
			f := staticCallee(cc)
			if f == nil || f.Pkg == nil || f.Pkg.Pkg.Path() != "sync" || len(cc.Args) == 0 {
				return
			}
			switch f.Name() {
			case "Lock", "RLock", "Unlock", "RUnlock":
				if fv := mutexField(cc.Args[0]); fv != nil {
					events[fn] = append(events[fn], lockEv{in, fv, f.Name()})
				}
			}
		})
	}
	// acquires(f): mutex fields f may lock, directly or through callees (light call graph)
	acquires := map[*ssa.Function]map[*types.Var]bool{}
	for _, fn := range fns {
		m := map[*types.Var]bool{}
		for _, e := range events[fn] {
			if e.kind == "Lock" || e.kind == "RLock" {
				m[e.field] = true
			}
		}
		acquires[fn] = m
	}
	// through static calls only (methods called through interfaces are left out: resolving them by
	// type would connect every Close with every other Close and make the graph meaningless)
	staticCallees := map[*ssa.Function][]*ssa.Function{}
	for _, fn := range fns {
		eachInstr(fn, func(in ssa.Instruction) {
			if _, isGo := in.(*ssa.Go); isGo {
				return
			}
			if cc := callOf(in); cc != nil {
				if f := staticCallee(cc); f != nil && f.Blocks != nil && funcPkgPath(f) == pkgIndex {
					staticCallees[fn] = append(staticCallees[fn], f)
				}
			}
		})
	}
	for changed := true; changed; {
		changed = false
		for _, fn := range fns {
			for _, callee := range staticCallees[fn] {
				for fv := range acquires[callee] {
					if !acquires[fn][fv] {
						acquires[fn][fv] = true
						changed = true
					}
				}
			}
		}
	}
	// edges: in fn, between Lock(A) and the matching Unlock(A) (or the end, when the unlock is
	// deferred), a Lock(B) or a call of something that acquires B
	type edge struct{ a, b *types.Var }
	where := map[edge]string{}
	for _, fn := range fns {
		for _, e := range events[fn] {
			if e.kind != "Lock" && e.kind != "RLock" {
				continue
			}
			if _, isDefer := e.in.(*ssa.Defer); isDefer {
				continue
			}
			a := e.field
			held := func(x ssa.Instruction) bool {
				// x is reachable from the lock without passing an (immediate) unlock of a
				ex := &Explorer{Fn: fn}
				reached := false
				ex.OnInstr = func(in ssa.Instruction, st *PState) bool {
					if in == x {
						reached = true
						return false
					}
					if cc := callOf(in); cc != nil {
						if _, isDefer := in.(*ssa.Defer); !isDefer {
							if k := lockCallKind(cc, a); k == "Unlock" || k == "RUnlock" {
								return false
							}
						}
					}
					return true
				}
				ex.RunAfter(e.in, newPState())
				return reached
			}
			eachInstr(fn, func(x ssa.Instruction) {
				if x == e.in {
					return
				}
				cc := callOf(x)
				if cc == nil {
					return
				}
				if _, isGo := x.(*ssa.Go); isGo {
					return
				}
				var bs []*types.Var
				if f := staticCallee(cc); f != nil && f.Pkg != nil && f.Pkg.Pkg.Path() == "sync" && len(cc.Args) > 0 && (f.Name() == "Lock" || f.Name() == "RLock") {
					if fv := mutexField(cc.Args[0]); fv != nil && fv != a {
						bs = append(bs, fv)
					}
				} else {
					for _, callee := range calleesOfCall(c, cc) {
						for fv := range acquires[callee] {
							if fv != a {
								bs = append(bs, fv)
							}
						}
					}
				}
				if len(bs) == 0 || !held(x) {
					return
				}
				for _, b := range bs {
					if _, ok := where[edge{a, b}]; !ok {
						where[edge{a, b}] = FuncName(fn) + " at " + c.Pos(x.Pos())
					}
				}
			})
		}
	}
	seen := map[edge]bool{}
	n := 0
	var edges []edge
	for e := range where {
		edges = append(edges, e)
	}
	sort.Slice(edges, func(i, j int) bool {
		return lockFieldName(c, edges[i].a)+lockFieldName(c, edges[i].b) < lockFieldName(c, edges[j].a)+lockFieldName(c, edges[j].b)
	})
	for _, e := range edges {
		w := where[e]
		if seen[e] || seen[edge{e.b, e.a}] {
			continue
		}
		if lockFieldName(c, e.a) > lockFieldName(c, e.b) {
			if _, both := where[edge{e.b, e.a}]; both {
				continue
			}
			e = edge{e.a, e.b}
		}
		seen[e] = true
		n++
		an, bn := lockFieldName(c, e.a), lockFieldName(c, e.b)
		key := fmt.Sprintf("lock order between %s and %s", an, bn)
		back, inv := where[edge{e.b, e.a}]
		c.Check(!inv, key, "-", an+" is held while "+bn+" is taken ("+w+"), never the other way round",
			an+" is held while "+bn+" is taken in "+w+", and "+bn+" is held while "+an+" is taken in "+back+": two goroutines on these paths wait for each other forever")
	}
	if n == 0 {
		c.OK("no mutex of package index is taken while another one is held", "-", "no nested acquisition")
	}
}

func calleesOfCall(c *Ctx, cc *ssa.CallCommon) []*ssa.Function {
	if f := staticCallee(cc); f != nil && f.Blocks != nil {
		return []*ssa.Function{f}
	}
	return nil
}

// ---- C19.R6 ---------------------------------------------------------------------------------

// The number of segments the planner tolerates is CalcBudget(total live size of the
// ELIGIBLE segments, ...). Segments above half the maximum can never merge; counting their
// bytes inflates the budget and small segments pile up. Every addition to the accumulator
// that reaches CalcBudget must be control-dependent on the eligibility comparison with
// MaxSegmentSize/2.
func ruleC19R6(c *Ctx) {
	fMax := c.Field(pkgMergeplan, "Options", "MaxSegmentSize")
	n := 0
	for _, fn := range c.FuncsIn(pkgMergeplan) {
		eachInstr(fn, func(in ssa.Instruction) {
			ci, ok := in.(*ssa.Call)
			if !ok || ci.Common().IsInvoke() || len(ci.Common().Args) < 2 {
				return
			}
			// the budget function: CalcBudget itself or the configured replacement held in a local
			isBudget := false
			if f := ci.Common().StaticCallee(); f != nil {
				isBudget = f.Name() == "CalcBudget"
			} else {
				isBudget = dependsOn(ci.Common().Value, func(y ssa.Value) bool {
					f, ok := y.(*ssa.Function)
					return ok && f.Name() == "CalcBudget"
				})
			}
			if !isBudget {
				return
			}
			n++
			key := "budget accumulator of " + FuncName(fn) + " sums eligible segments only"
			// the accumulator: the first argument (total size); follow it to the additions
			acc := ci.Common().Args[0]
			var adds []*ssa.BinOp
			seen := map[ssa.Value]bool{}
			var walk func(v ssa.Value, d int)
			walk = func(v ssa.Value, d int) {
				if v == nil || seen[v] || d > 8 {
					return
				}
				seen[v] = true
				switch x := v.(type) {
				case *ssa.Phi:
					for _, e := range x.Edges {
						walk(e, d+1)
					}
				case *ssa.BinOp:
					if x.Op == token.ADD {
						adds = append(adds, x)
						walk(x.X, d+1)
					}
				case *ssa.Extract:
					if call, ok := x.Tuple.(*ssa.Call); ok {
						if callee := call.Common().StaticCallee(); callee != nil && callee.Blocks != nil {
							eachInstr(callee, func(g ssa.Instruction) {
								if r, ok := g.(*ssa.Return); ok && x.Index < len(r.Results) {
									walk(r.Results[x.Index], d+1)
								}
							})
						}
					}
				case *ssa.UnOp:
					if u, ok := isLoad(x); ok {
						if al, ok := u.X.(*ssa.Alloc); ok && al.Referrers() != nil {
							for _, r := range *al.Referrers() {
								if st, ok := r.(*ssa.Store); ok && st.Addr == ssa.Value(al) {
									walk(st.Val, d+1)
								}
							}
						}
					}
				}
			}
			walk(acc, 0)
			if len(adds) == 0 {
				c.Undecided(key, c.Pos(ci.Pos()), "no addition feeds the budget accumulator")
				return
			}
			var bad []string
			for _, ad := range adds {
				guarded := false
				eachInstr(ad.Parent(), func(g ssa.Instruction) {
					iff, ok := g.(*ssa.If)
					if !ok {
						return
					}
					if !dependsOnField(iff.Cond, fMax) {
						return
					}
					for edge := 0; edge < 2; edge++ {
						if edgeDominates(iff, edge, ad.Block()) {
							guarded = true
						}
					}
				})
				if !guarded {
					bad = append(bad, c.Pos(ad.Pos()))
				}
			}
			c.Check(len(bad) == 0, key, c.Pos(ci.Pos()), "every addition sits behind the comparison with MaxSegmentSize/2",
				"the size handed to CalcBudget is increased at "+uniqJoin(bad)+" for segments that did not pass the eligibility test: bytes of segments that can never merge raise the tolerated segment count")
		})
	}
}

// lockFieldName: "Struct.field" of a mutex field of package index.
func lockFieldName(c *Ctx, fv *types.Var) string {
	for _, n := range c.Light().named {
		st, ok := n.Underlying().(*types.Struct)
		if !ok {
			continue
		}
		for i := 0; i < st.NumFields(); i++ {
			if st.Field(i) == fv {
				return n.Obj().Name() + "." + fv.Name()
			}
		}
	}
	return fv.Name()
}

func init() {
	registerRule(&RuleInfo{ID: "C02.R8", Title: "waiters are registered in the critical section that installs their snapshot", Floor: 1, Run: ruleC02R8,
		Covers: "every function of package index that appends to Writer.rootPersisted / Writer.persistedCallbacks"})
}

// ---- C02.R8 ---------------------------------------------------------------------------------

// The introducer side of the grab protocol (C02.R6 is the persister side): the ack channel
// and callback of a batch must be appended to the writer's pending lists in the same
// rootLock section that makes the snapshot containing the batch the root. Registered in a
// section of their own (before or after the swap), the persister can take them together
// with a root that does not contain the batch and acknowledge it for a snapshot that lacks it.
func ruleC02R8(c *Ctx) {
	a := c.Idx()
	ackFields := []*types.Var{a.WRootPersisted, a.WPersistedCallbacks}
	const (
		fHeld uint64 = 1 << iota
		fWrite
		fDeferred
		fAppended
		fRootStored
	)
	n := 0
	for _, fn := range c.FuncsIn(pkgIndex) {
		var appends []*ssa.Store
		for _, f := range ackFields {
			for _, st := range storesToField(fn, f) {
				if call, ok := st.Val.(*ssa.Call); ok && builtinName(call.Common()) == "append" {
					appends = append(appends, st)
				}
			}
		}
		if len(appends) == 0 {
			continue
		}
		n++
		key := "waiters appended in " + FuncName(fn) + " are registered together with the root swap"
		var problems []string
		ex := &Explorer{Fn: fn}
		ex.OnInstr = func(in ssa.Instruction, st *PState) bool {
			before := st.Flags
			if ev := lockStep(in, a.WRootLock, st, fHeld, fWrite, fDeferred); ev == "unlock" {
				if before&fAppended != 0 && before&fRootStored == 0 {
					problems = append(problems, "the rootLock section ending at "+c.Pos(in.Pos())+" appends waiters without installing a root")
				}
				st.Flags &^= fAppended | fRootStored
			}
			if s2, ok := in.(*ssa.Store); ok {
				for _, ap := range appends {
					if s2 == ap {
						st.Flags |= fAppended
						if st.Flags&fHeld == 0 {
							problems = append(problems, "waiters are appended at "+c.Pos(in.Pos())+" outside any rootLock section")
						}
					}
				}
				if isFieldAddr(s2.Addr, a.WRoot) {
					st.Flags |= fRootStored
				}
			}
			return true
		}
		ex.OnReturn = func(r *ssa.Return, st *PState) {
			if st.Flags&fAppended != 0 && st.Flags&fRootStored == 0 {
				problems = append(problems, "waiters are appended and the function returns at "+c.Pos(r.Pos())+" without having installed a root in that section")
			}
		}
		ex.Run()
		if ex.Exceeded {
			c.Undecided(key, c.Pos(fn.Pos()), "path exploration did not finish")
			continue
		}
		c.Check(len(problems) == 0, key, c.Pos(fn.Pos()), "every section that appends waiters also stores Writer.root", uniqJoin(problems))
	}
}
