package main

import (
	"fmt"
	"go/token"
	"go/types"
	"strings"

	"golang.org/x/tools/go/ssa"
)

func init() {
	registerProperty(&PropertyInfo{
		ID:    "C11",
		Title: "No needed file is ever removed; handles and the lock are released",
		Rules: []string{"C11.R1", "C11.R2", "C02.R2", "C11.R4", "C11.R5", "C11.R6", "C11.R7", "C11.R8", "C11.R9", "C02.R7", "C13.R3"},
		Decides: "who may remove and under which guard, and acquire/release pairing on all paths: Directory.Remove is called only by the deletion policy's clean-up and by the offline merge behind the successful persist of the merged segment; Commit/Cleanup of the deletion policy are invoked only in the persister goroutine or in OpenWriter before any goroutine starts; in the segment clean-up a Remove is unreachable from a membership hit in any live epoch's segment set without starting the next candidate, candidates enter knownSegmentFiles only in Commit, an id/epoch is forgotten only on the success edge of its Remove, epochs become deletable only behind len(liveEpochs) > n; commit follows the durable snapshot (C02.R2); every closer obtained from Directory.Load and every wrapper obtained from a loading function is closed, returned, or stored into a holder that is itself returned or closed on every path; every snapshot reference obtained inside package index is closed on every path; OpenWriter touches the directory's contents only behind a successful Lock, never unlocks after a failed Lock, and closes (unlocks) on every later error path; Close reaches Unlock on every path; the unix remove unlinks only behind a successful exclusive open. the sender of a merge releases the merged segment when its introduction was skipped; a name is removed (unlink/rename) only in package index on a path where the function holds the file's exclusive lock, or for the writer's own lock file. close drops the root on every path and unlocks only after waiting on that path; load hooks close the locked file when they fail; every writer gets a deletion policy of its own.",
		NotCovered: "the directory contents over time (which files exist at which instant); flock semantics; Windows sharing semantics beyond the same pairing rules in the thorough tier.",
	})
	registerRule(&RuleInfo{ID: "C11.R1", Title: "who may remove items and drive the deletion policy", Floor: 6, Run: ruleC11R1,
		Covers: "every call site of Directory.Remove, DeletionPolicy.Commit and DeletionPolicy.Cleanup"})
	registerRule(&RuleInfo{ID: "C11.R2", Title: "a segment file is removed only if no live epoch lists it; bookkeeping only on success", Floor: 3, Run: ruleC11R2,
		Covers: "CFG shape of the clean-up functions of every DeletionPolicy implementation"})
	registerRule(&RuleInfo{ID: "C11.R4", Title: "closers, loaded wrappers and snapshot references are released on every path", Floor: 12, Run: ruleC11R4,
		Covers: "path-sensitive acquire/release typestate with ownership transfer (return, holder, deferred clean-up)"})
	registerRule(&RuleInfo{ID: "C11.R5", Title: "the directory lock: taken before the directory is touched, released on every exit", Floor: 2, Run: ruleC11R5,
		Covers: "path-sensitive typestate of OpenWriter and of the close function"})
	registerRule(&RuleInfo{ID: "C11.R6", Title: "unlink only behind a successful exclusive open", Floor: 1, Run: ruleC11R6,
		Covers: "every Directory.Remove implementation that deletes a file"})
}

func deletionPolicyImpls(p *Program) []*types.Named {
	it := p.Iface(pkgIndex, "DeletionPolicy")
	var rv []*types.Named
	for _, n := range p.Light().named {
		if types.Implements(types.NewPointer(n), it) || types.Implements(n, it) {
			rv = append(rv, n)
		}
	}
	return rv
}

func methodRecvNamed(fn *ssa.Function) *types.Named {
	fn = enclosingTop(fn)
	if fn.Signature.Recv() == nil {
		return nil
	}
	return namedOf(fn.Signature.Recv().Type())
}

func ruleC11R1(c *Ctx) {
	a := c.Idx()
	policies := map[*types.Named]bool{}
	for _, n := range deletionPolicyImpls(c.Program) {
		policies[n] = true
	}
	roots, _ := persisterRoots(c.Program)
	reach := map[*ssa.Function]bool{}
	if len(roots) == 1 {
		reach = c.Light().Reach(roots[0])
	}
	_, otherRoots := persisterRoots(c.Program)
	otherReach := c.Light().Reach(otherRoots...)
	n := 0
	for _, fn := range c.SrcFuncs() {
		eachInstr(fn, func(in ssa.Instruction) {
			ci, ok := in.(*ssa.Call)
			if !ok || !ci.Common().IsInvoke() {
				return
			}
			cc := ci.Common()
			switch {
			case callsIfaceMethod(cc, a.DirRemove):
				n++
				key := fmt.Sprintf("Directory.Remove call #%d in %s", n, FuncName(fn))
				pos := c.Pos(in.Pos())
				if policies[methodRecvNamed(fn)] {
					c.OK(key, pos, "inside a deletion policy")
					return
				}
				// elsewhere: only behind a successful persist of a replacement item in the same function
				behind := false
				eachInstr(fn, func(x ssa.Instruction) {
					if pc, isCall := x.(*ssa.Call); isCall && a.isDirCall(pc.Common(), a.DirPersist, "") && onSuccessEdge(pc, ci) {
						behind = true
					}
				})
				c.Check(behind, key, pos, "outside the deletion policy, but only behind the successful persist of the item that replaces the removed ones",
					"an item is removed by code that is neither the deletion policy nor guarded by a successful persist of its replacement: a file still listed by a snapshot can disappear")
			case callsIfaceMethod(cc, a.DPCommit), callsIfaceMethod(cc, a.DPCleanup):
				n++
				key := fmt.Sprintf("DeletionPolicy.%s call #%d in %s", cc.Method.Name(), n, FuncName(fn))
				pos := c.Pos(in.Pos())
				top := enclosingTop(fn)
				switch {
				case reach[top] && !otherReach[top]:
					c.OK(key, pos, "in the persister goroutine")
				case top == a.OpenWriter && !goReaches(a.OpenWriter, ci) || onlyCalledBeforeGo(c, top, a):
					c.OK(key, pos, "in OpenWriter before any goroutine starts")
				case policies[methodRecvNamed(fn)]:
					c.OK(key, pos, "a policy delegating to itself")
				default:
					c.Violate(key, pos, "the deletion policy (unsynchronised state) is driven from outside the persister goroutine: concurrent Commit/Cleanup can remove files of a live snapshot")
				}
			}
		})
	}
}

func goReaches(fn *ssa.Function, at ssa.Instruction) bool {
	r := false
	eachInstr(fn, func(in ssa.Instruction) {
		if _, isGo := in.(*ssa.Go); isGo && reachesInstr(in, at) {
			r = true
		}
	})
	return r
}

// reachAvoiding: can block `to` be reached from block `from` without entering `avoid`?
func reachAvoiding(from, to, avoid *ssa.BasicBlock) bool {
	seen := map[*ssa.BasicBlock]bool{}
	stack := []*ssa.BasicBlock{from}
	for len(stack) > 0 {
		b := stack[len(stack)-1]
		stack = stack[:len(stack)-1]
		if seen[b] || b == avoid {
			continue
		}
		seen[b] = true
		if b == to {
			return true
		}
		stack = append(stack, b.Succs...)
	}
	return false
}

func ruleC11R2(c *Ctx) {
	a := c.Idx()
	for _, pol := range deletionPolicyImpls(c.Program) {
		pname := pol.Obj().Name()
		st, ok := pol.Underlying().(*types.Struct)
		if !ok {
			continue
		}
		var mapFields []*types.Var
		for i := 0; i < st.NumFields(); i++ {
			if _, isMap := st.Field(i).Type().Underlying().(*types.Map); isMap {
				mapFields = append(mapFields, st.Field(i))
			}
		}
		var methods []*ssa.Function
		for _, fn := range c.FuncsIn(pkgIndex) {
			if methodRecvNamed(fn) == pol && fn.Blocks != nil {
				methods = append(methods, fn)
			}
		}
		commit := c.MethodOpt(pkgIndex, pname, "Commit")
		for _, fn := range methods {
			eachInstr(fn, func(in ssa.Instruction) {
				ci, ok := in.(*ssa.Call)
				if !ok || !ci.Common().IsInvoke() || !callsIfaceMethod(ci.Common(), a.DirRemove) {
					return
				}
				kind, _ := constString(ci.Common().Args[0])
				idArg := ci.Common().Args[1]
				key := fmt.Sprintf("%s removal in %s", kind, FuncName(fn))
				pos := c.Pos(in.Pos())
				var problems []string
				outer := enclosingLoopHeader(ci.Block())
				if outer == nil {
					problems = append(problems, "the removal is not inside a loop over candidates")
				}
				if kind == a.KindSegment {
					// path rule (helpers of the policy are followed): in the round of one candidate, the
					// removal is reached only if no lookup of the candidate in a live snapshot's segment set
					// hit, and only after the loop over all live sets ran to its end
					const (
						fHit uint64 = 1 << iota
						fScanned
						fLooked
					)
					var liveMap *types.Var // the map of per-epoch segment sets: the one whose values are maps
					for _, mf := range mapFields {
						if mt, ok := mf.Type().Underlying().(*types.Map); ok {
							if _, inner := mt.Elem().Underlying().(*types.Map); inner {
								liveMap = mf
							}
						}
					}
					// the scan of all live sets has completed when the range loop over them leaves through
					// its exhausted edge (ok == false of Next), not through a break
					type edge struct{ from, to *ssa.BasicBlock }
					scanDone := map[edge]bool{}
					for _, m := range methods {
						eachInstr(m, func(x ssa.Instruction) {
							nx, ok := x.(*ssa.Next)
							if !ok {
								return
							}
							rg, ok := nx.Iter.(*ssa.Range)
							if !ok || liveMap == nil || !loadsField(rg.X, liveMap) {
								return
							}
							if okv := resultValue2(nx, 0); okv != nil && okv.Referrers() != nil {
								for _, r := range *okv.Referrers() {
									if iff, isIf := r.(*ssa.If); isIf {
										scanDone[edge{iff.Block(), iff.Block().Succs[1]}] = true
									}
								}
							}
						})
					}
					sm := &Summarizer{}
					sm.Follow = func(f *ssa.Function) bool { return methodRecvNamed(f) == pol }
					sm.LookupOutcomes = func(lk *ssa.Lookup, st *PState) []Outcome {
						// a lookup in one live snapshot's segment set (a map whose value type is empty struct / bool), keyed by the candidate or a parameter
						if _, isParam := lk.Index.(*ssa.Parameter); !isParam && !sameValueOrPath(lk.Index, idArg) {
							return nil
						}
						if liveMap != nil && !dependsOnField(lk.X, liveMap) {
							return nil
						}
						return []Outcome{{Results: []Tri{TriUnknown, TriYes}, Flags: fHit | fLooked}, {Results: []Tri{TriUnknown, TriNo}, Flags: fLooked}}
					}
					sm.OnEdge = func(from, to *ssa.BasicBlock, st *PState) {
						if scanDone[edge{from, to}] {
							st.Flags |= fScanned
						}
					}
					ex := sm.Explorer(fn)
					base := ex.OnInstr
					ex.OnInstr = func(x ssa.Instruction, st *PState) bool {
						if base != nil {
							base(x, st)
						}
						if x == ssa.Instruction(ci) {
							if st.Flags&fHit != 0 {
								problems = append(problems, "the removal is reachable although the candidate was found in a live snapshot's segment set in this round (the file is still needed)")
							}
							if st.Flags&fScanned == 0 {
								problems = append(problems, "the removal is reachable without the scan over all live snapshots having completed")
							}
						}
						return true
					}
					ex.OnEdge = func(from, to *ssa.BasicBlock, st *PState) {
						sm.OnEdge(from, to, st)
						if to == outer && outer != nil && naturalLoop(outer)[from] {
							st.Flags &^= fHit | fScanned | fLooked
						}
					}
					ex.Run()
					if ex.Exceeded || sm.Exceeded {
						c.Undecided(key, pos, "path exploration did not finish")
						return
					}
				}
				c.Check(len(problems) == 0, key, pos, "unreachable from a membership hit; behind the complete scan of the live sets", uniqJoin(problems))

				// bookkeeping: forgetting the candidate only on the success edge of this Remove
				eachInstr(fn, func(x ssa.Instruction) {
					cc := callOf(x)
					if cc == nil || builtinName(cc) != "delete" {
						return
					}
					if !sameValueOrPath(cc.Args[1], idArg) {
						return
					}
					k2 := fmt.Sprintf("%s is forgotten only after its removal succeeded in %s", kind, FuncName(fn))
					c.Check(onSuccessEdge(ci, x), k2, c.Pos(x.Pos()), "delete(...) only on the success edge of Directory.Remove", "the candidate is forgotten although its removal may have failed: the file is never retried and leaks, or its live set is dropped while the snapshot file still exists")
				})
			})
		}
		// candidates enter the known-files map only in Commit; epochs become deletable only behind len(live) > n
		for _, mf := range mapFields {
			for _, fn := range methods {
				eachInstr(fn, func(in ssa.Instruction) {
					mu, ok := in.(*ssa.MapUpdate)
					if !ok || !loadsField(mu.Map, mf) {
						return
					}
					if fn.Name() == "Commit" || commit != nil && enclosingTop(fn) == commit {
						return
					}
					if strings.HasPrefix(fn.Name(), "New") {
						return
					}
					c.Violate(fmt.Sprintf("%s.%s is filled only by Commit", pname, mf.Name()), c.Pos(in.Pos()), "the policy's bookkeeping gains entries outside Commit in "+FuncName(fn)+": files of snapshots that were never committed become removal candidates")
				})
			}
		}
		if commit != nil {
			// stores that trim the live list: guarded by len(live) > n
			nTrim := 0
			eachInstr(commit, func(in ssa.Instruction) {
				sto, ok := in.(*ssa.Store)
				if !ok {
					return
				}
				fa, ok := sto.Addr.(*ssa.FieldAddr)
				if !ok || !strings.Contains(strings.ToLower(fieldVar(fa).Name()), "deletable") {
					return
				}
				nTrim++
				guard := false
				eachInstr(commit, func(x ssa.Instruction) {
					iff, ok := x.(*ssa.If)
					if !ok {
						return
					}
					b, ok := iff.Cond.(*ssa.BinOp)
					if !ok || b.Op != token.GTR {
						return
					}
					if cc, isCall := b.X.(*ssa.Call); isCall && builtinName(cc.Common()) == "len" && edgeDominates(iff, 0, sto.Block()) {
						if f, _ := loadedField(b.Y); f != nil {
							guard = true
						}
					}
				})
				c.Check(guard, fmt.Sprintf("%s: epochs become deletable only beyond the retention count", pname), c.Pos(in.Pos()), "store guarded by len(liveEpochs) > n", "epochs are made deletable without the len(live) > n guard: fewer than n snapshots may survive")
			})
			if nTrim == 0 {
				c.Note("%s.Commit has no deletable-epoch store", pname)
			}
		}
	}
}

func sameValueOrPath(x, y ssa.Value) bool {
	if x == y {
		return true
	}
	px, py := accessPath(x), accessPath(y)
	return px != "" && px == py
}

// ---- R4: resource typestate ------------------------------------------------------------------

const (
	rsAcquired uint64 = 1 << iota
	rsReleased
	rsTransferred
	rsDeferred
	rsInHolder
	rsHolderDone
)

type resourceSite struct {
	fn    *ssa.Function
	call  *ssa.Call
	res   ssa.Value // the resource value (closer / wrapper / snapshot)
	label string
}

// closesValue: does instruction in (in function f or a closure of it) release v? (Close/DecRef/decRef on something deriving from v)
func isReleaseCall(cc *ssa.CallCommon) (recv ssa.Value, ok bool) {
	name := ""
	if cc.IsInvoke() {
		name, recv = cc.Method.Name(), cc.Value
	} else if f := cc.StaticCallee(); f != nil && f.Signature.Recv() != nil && len(cc.Args) > 0 {
		name, recv = f.Name(), cc.Args[0]
	}
	switch name {
	case "Close", "DecRef", "decRef":
		return recv, true
	}
	return nil, false
}

func ruleC11R4(c *Ctx) {
	a := c.Idx()
	var sites []resourceSite
	wrapperLoaders := map[*ssa.Function]bool{}
	for _, fn := range c.FuncsIn(pkgIndex) {
		// functions returning (*segmentWrapper, error) built from a directory load own a handle
		if fn.Signature.Results().Len() == 2 && namedOf(fn.Signature.Results().At(0).Type()) == a.SegWrapper && isErrorType(fn.Signature.Results().At(1).Type()) {
			has := false
			eachInstr(fn, func(in ssa.Instruction) {
				if cc := callOf(in); cc != nil && a.isDirCall(cc, a.DirLoad, "") {
					has = true
				}
			})
			if has {
				wrapperLoaders[fn] = true
			}
		}
	}
	for _, fn := range c.FuncsIn(pkgIndex) {
		eachInstr(fn, func(in ssa.Instruction) {
			ci, ok := in.(*ssa.Call)
			if !ok {
				return
			}
			cc := ci.Common()
			switch {
			case cc.IsInvoke() && a.isDirCall(cc, a.DirLoad, ""):
				if r := resultValue(ci, 1); r != nil {
					sites = append(sites, resourceSite{fn, ci, r, "closer of Directory.Load"})
				}
			case cc.StaticCallee() != nil && wrapperLoaders[cc.StaticCallee()]:
				if r := resultValue(ci, 0); r != nil {
					sites = append(sites, resourceSite{fn, ci, r, "wrapper from " + cc.StaticCallee().Name()})
				}
			case cc.StaticCallee() != nil && readsRootField(cc.StaticCallee(), a) && namedOf(ci.Type()) == a.Snapshot && fn.Signature.Results().Len() != 2:
				sites = append(sites, resourceSite{fn, ci, ci, "snapshot reference"})
			case isSnapshotAddRef(cc.StaticCallee(), a) && !readsRootFieldAndReturns(fn, a):
				sites = append(sites, resourceSite{fn, ci, cc.Args[0], "extra snapshot reference (addRef)"})
			}
		})
	}
	counts := map[string]int{}
	for _, s := range sites {
		base := s.label + " in " + FuncName(s.fn)
		counts[base]++
		key := fmt.Sprintf("%s #%d is released on every path", base, counts[base])
		c.checkResource(s, key)
	}
}

func (c *Ctx) checkResource(s resourceSite, key string) {
	a := c.Idx()
	fn := s.fn
	pos := c.Pos(s.call.Pos())
	resPath := accessPath(s.res)
	isRes := func(y ssa.Value) bool {
		if y == s.res {
			return true
		}
		// another load of the same local cell / field path holds the same resource
		return resPath != "" && strings.HasPrefix(resPath, "*cell:") && accessPath(y) == resPath
	}
	// holder objects: fresh local objects into which the resource (or a literal containing it) is stored
	holders := map[ssa.Value]bool{}
	// deferred / helper closures that release the resource or a holder
	releasingClosure := func(f *ssa.Function, what func(ssa.Value) bool) bool {
		found := false
		for _, g := range withAnon(f) {
			eachInstr(g, func(in ssa.Instruction) {
				if cc := callOf(in); cc != nil {
					if recv, ok := isReleaseCall(cc); ok && dependsOn(recv, what) {
						found = true
					}
				}
			})
		}
		return found
	}
	// pre-compute holder roots: resource stored into field/elem/map of an object X (X fresh-owned local)
	var rootOf func(v ssa.Value, d int) ssa.Value
	rootOf = func(v ssa.Value, d int) ssa.Value {
		if d > 8 {
			return v
		}
		switch x := v.(type) {
		case *ssa.FieldAddr:
			return rootOf(x.X, d+1)
		case *ssa.IndexAddr:
			return rootOf(x.X, d+1)
		case *ssa.UnOp:
			if x.Op == token.MUL {
				if _, isCell := x.X.(*ssa.Alloc); isCell && !isFreshLocalAllocOfStruct(x.X) {
					// load of a local cell: the stored object(s)
					return v
				}
				return rootOf(x.X, d+1)
			}
		}
		return v
	}
	contains := func(v ssa.Value) bool { return reachesThroughFields(v, isRes, 0) }
	eachInstr(fn, func(in ssa.Instruction) {
		switch x := in.(type) {
		case *ssa.Store:
			if _, isCell := x.Addr.(*ssa.Alloc); isCell {
				return
			}
			if contains(x.Val) {
				holders[rootOf(x.Addr, 0)] = true
			}
		case *ssa.MapUpdate:
			if contains(x.Value) {
				holders[x.Map] = true
			}
		}
	})
	// a holder reached through a local cell and the object stored in that cell are the same holder
	for changed := true; changed; {
		changed = false
		for h := range holders {
			if u, ok := isLoad(h); ok {
				if cell, ok := u.X.(*ssa.Alloc); ok && cell.Referrers() != nil {
					for _, r := range *cell.Referrers() {
						if st, ok := r.(*ssa.Store); ok && st.Addr == cell && !holders[st.Val] {
							holders[st.Val] = true
							changed = true
						}
					}
				}
			}
		}
	}
	isHolder := func(y ssa.Value) bool {
		if holders[y] {
			return true
		}
		for h := range holders {
			if sameValueOrPath(h, y) {
				return true
			}
		}
		return false
	}
	var problems []string
	ex := &Explorer{Fn: fn, Keep: map[ssa.Value]bool{s.res: true}}
	// hand-over through a select send case: transferred exactly when that case was chosen
	var sendTests []ssa.Value
	eachInstr(fn, func(in ssa.Instruction) {
		sel, ok := in.(*ssa.Select)
		if !ok {
			return
		}
		for k, stt := range sel.States {
			if stt.Dir != types.SendOnly || !(contains(stt.Send) || reachesThroughFields(stt.Send, isHolder, 0)) {
				continue
			}
			if idx := resultValue2(sel, 0); idx != nil && idx.Referrers() != nil {
				for _, r := range *idx.Referrers() {
					if b, ok := r.(*ssa.BinOp); ok && b.Op == token.EQL {
						if kk, okc := constInt(b.Y); okc && int(kk) == k {
							sendTests = append(sendTests, b)
							ex.Keep[b] = true
						}
					}
				}
			}
		}
	})
	ev := errResult(s.call)
	ex.Outcomes = func(ci ssa.CallInstruction, st *PState) []Outcome {
		if ci != ssa.CallInstruction(s.call) {
			return nil
		}
		n := s.call.Common().Signature().Results().Len()
		keep := st.Flags & rsDeferred
		if ev == nil || n < 2 {
			return []Outcome{{Flags: rsAcquired | keep, Replace: true}}
		}
		okR, badR := make([]Tri, n), make([]Tri, n)
		ei := errorResultIndex(s.call.Common().Signature())
		okR[ei], badR[ei] = TriNo, TriYes
		// a failed acquisition leaves earlier acquisitions (previous loop rounds) as they were
		return []Outcome{{Results: okR, Flags: rsAcquired | keep | st.Flags&rsInHolder, Replace: true}, {Results: badR, Flags: st.Flags, Replace: true}}
	}
	ex.OnInstr = func(in ssa.Instruction, st *PState) bool {
		if _, isDefer := in.(*ssa.Defer); !isDefer && st.Flags&rsAcquired == 0 {
			return true
		}
		switch x := in.(type) {
		case *ssa.Defer:
			cc := x.Common()
			if recv, ok := isReleaseCall(cc); ok && (dependsOn(recv, isRes) || dependsOn(recv, isHolder)) {
				st.Flags |= rsDeferred
			}
			if mc, ok := cc.Value.(*ssa.MakeClosure); ok {
				f := mc.Fn.(*ssa.Function)
				if releasingClosure(f, func(y ssa.Value) bool { return isRes(y) || isHolder(y) || isFreeVarOfHolder(y, mc, isHolder, isRes) }) {
					st.Flags |= rsDeferred
				}
			}
		case *ssa.Call:
			cc := x.Common()
			if recv, ok := isReleaseCall(cc); ok {
				if st.Canon(recv) == st.Canon(s.res) || dependsOn(recv, isRes) {
					if st.Flags&rsReleased != 0 && st.Flags&rsInHolder == 0 {
						problems = append(problems, fmt.Sprintf("the %s is released a second time at %s on one path: a reference that belongs to someone else (e.g. an open Reader) is dropped", s.label, c.Pos(in.Pos())))
					}
					st.Flags |= rsReleased
				} else if dependsOn(recv, isHolder) {
					st.Flags |= rsHolderDone
				}
				return true
			}
			// helper closure that releases
			if sc := cc.StaticCallee(); sc != nil && sc.Parent() == fn {
				if releasingClosure(sc, func(y ssa.Value) bool { return freeVarReaches(y, isRes) || freeVarReaches(y, isHolder) }) {
					st.Flags |= rsReleased
				}
				return true
			}
			// ownership handed to a callee that stores it (constructor of a holder) is a transfer only via return value below
		case *ssa.Store:
			if _, isCell := x.Addr.(*ssa.Alloc); !isCell && contains(x.Val) {
				st.Flags |= rsInHolder
			}
		case *ssa.MapUpdate:
			if contains(x.Value) {
				st.Flags |= rsInHolder
			}
		case *ssa.Send:
			if contains(x.X) || dependsOn(x.X, isHolder) {
				st.Flags |= rsTransferred
			}
		}
		return true
	}
	ex.OnReturn = func(r *ssa.Return, st *PState) {
		if st.Flags&rsAcquired == 0 || st.Flags&(rsReleased|rsTransferred|rsDeferred) != 0 {
			return
		}
		if st.Eval(s.res) == TriNo {
			return // nil resource on this path
		}
		for _, t := range sendTests {
			if st.Eval(t) == TriYes {
				return // handed over to the receiver of the select's send case
			}
		}
		for _, rv := range r.Results {
			if isErrorType(rv.Type()) || !isRefLike(rv.Type()) {
				continue
			}
			if contains(rv) && st.Eval(rv) != TriNo {
				return // returned to the caller (directly or inside a holder)
			}
			if st.Flags&rsInHolder != 0 && reachesThroughFields(rv, isHolder, 0) && st.Eval(rv) != TriNo {
				return
			}
		}
		if st.Flags&rsInHolder != 0 && st.Flags&rsHolderDone != 0 {
			return
		}
		what := "is neither released, returned nor handed to an owner"
		if st.Flags&rsInHolder != 0 {
			what = "was stored into a holder that is neither returned nor closed"
		}
		problems = append(problems, fmt.Sprintf("on a path returning at %s the %s %s", c.Pos(r.Pos()), s.label, what))
	}
	ex.Run()
	if ex.Exceeded {
		c.Undecided(key, pos, "path exploration did not finish")
		return
	}
	_ = a
	c.Check(len(problems) == 0, key, pos, "closed, returned, or owned by a returned/closed holder on every path", uniqJoin(problems))
}

func isFreshLocalAllocOfStruct(v ssa.Value) bool {
	al, ok := v.(*ssa.Alloc)
	if !ok {
		return false
	}
	_, isStruct := derefType(al.Type()).Underlying().(*types.Struct)
	return isStruct
}

// freeVarReaches: y is (a load of) a free variable whose binding satisfies pred in the parent.
func freeVarReaches(y ssa.Value, pred func(ssa.Value) bool) bool {
	if pred(y) {
		return true
	}
	fv, ok := y.(*ssa.FreeVar)
	if !ok {
		return false
	}
	return dependsOn(fv, pred)
}

func isFreeVarOfHolder(y ssa.Value, mc *ssa.MakeClosure, isHolder, isRes func(ssa.Value) bool) bool {
	fv, ok := y.(*ssa.FreeVar)
	if !ok {
		return false
	}
	f := mc.Fn.(*ssa.Function)
	for i, v := range f.FreeVars {
		if v == fv && i < len(mc.Bindings) {
			b := mc.Bindings[i]
			if isHolder(b) || isRes(b) {
				return true
			}
			if al, ok := b.(*ssa.Alloc); ok && al.Referrers() != nil {
				for _, r := range *al.Referrers() {
					if u, ok := r.(*ssa.UnOp); ok && u.Op == token.MUL && isHolder(u) {
						return true
					}
				}
			}
			// a cell that holds the holder/resource
			if al, ok := b.(*ssa.Alloc); ok && al.Referrers() != nil {
				for _, r := range *al.Referrers() {
					if st, ok := r.(*ssa.Store); ok && st.Addr == al && (isHolder(st.Val) || isRes(st.Val) || dependsOn(st.Val, isRes)) {
						return true
					}
				}
			}
		}
	}
	return false
}

// ---- R5 ------------------------------------------------------------------------------------------

func ruleC11R5(c *Ctx) {
	a := c.Idx()
	const (
		fLocked uint64 = 1 << iota
		fLockFailed
		fUnlocked
		fTouchedBefore
	)
	s := &Summarizer{}
	s.SiteOutcomes = func(ci ssa.CallInstruction, st *PState) []Outcome {
		cc := ci.Common()
		if !cc.IsInvoke() {
			return nil
		}
		switch {
		case callsIfaceMethod(cc, a.DirLock):
			return []Outcome{{Results: []Tri{TriNo}, Flags: fLocked}, {Results: []Tri{TriYes}, Flags: fLockFailed}}
		case callsIfaceMethod(cc, a.DirUnlock):
			return []Outcome{{Flags: fUnlocked}}
		}
		return nil
	}
	// OpenWriter
	ow := a.OpenWriter
	var problems []string
	ex := s.Explorer(ow)
	ex.OnInstr = func(in ssa.Instruction, st *PState) bool {
		cc := callOf(in)
		if cc == nil || !cc.IsInvoke() {
			return true
		}
		touches := callsIfaceMethod(cc, a.DirPersist) || callsIfaceMethod(cc, a.DirRemove) || callsIfaceMethod(cc, a.DPCleanup)
		if touches && st.Flags&fLocked == 0 {
			problems = append(problems, "the directory is modified at "+c.Pos(in.Pos())+" before the exclusive lock is held")
		}
		return true
	}
	ex.OnReturn = func(r *ssa.Return, st *PState) {
		ei := fnErrIdx(ow)
		failed := ei >= 0 && st.Eval(r.Results[ei]) == TriYes
		switch {
		case st.Flags&fLockFailed != 0 && st.Flags&fUnlocked != 0:
			problems = append(problems, "after a FAILED Lock the directory is unlocked/closed (return at "+c.Pos(r.Pos())+"): the first writer's lock file is removed")
		case st.Flags&fLocked != 0 && failed && st.Flags&fUnlocked == 0:
			problems = append(problems, "an error return at "+c.Pos(r.Pos())+" after a successful Lock does not release the lock: the directory cannot be reopened")
		case !failed && st.Flags&fLocked == 0:
			problems = append(problems, "OpenWriter can succeed without holding the directory lock")
		case !failed && st.Flags&fUnlocked != 0:
			problems = append(problems, "OpenWriter returns a writer whose directory lock was already released")
		}
	}
	ex.Run()
	c.Check(len(problems) == 0 && !ex.Exceeded && !s.Exceeded, "directory lock protocol of OpenWriter", c.Pos(ow.Pos()), "Lock before any modification; no unlock after a failed Lock; unlock on every error path after a successful Lock", uniqJoin(problems))

	// the close function: reaches Unlock on every path
	for _, fn := range c.FuncsIn(pkgIndex) {
		if methodRecvNamed(fn) != a.Writer || fn.Parent() != nil {
			continue
		}
		direct := false
		eachInstr(fn, func(in ssa.Instruction) {
			if cc := callOf(in); cc != nil && cc.IsInvoke() && callsIfaceMethod(cc, a.DirUnlock) {
				direct = true
			}
		})
		if !direct {
			continue
		}
		var p2 []string
		ex2 := s.Explorer(fn)
		const (
			fWaited uint64 = 1 << (iota + 8)
			fRootDropped
		)
		ex2.OnInstr = func(in ssa.Instruction, st *PState) bool {
			if cc := callOf(in); cc != nil {
				if f := cc.StaticCallee(); f != nil && f.Pkg != nil && f.Pkg.Pkg.Path() == "sync" && f.Name() == "Wait" {
					st.Flags |= fWaited
				}
				if cc.IsInvoke() && callsIfaceMethod(cc, a.DirUnlock) && st.Flags&fWaited == 0 {
					p2 = append(p2, "the lock is released at "+c.Pos(in.Pos())+" on a path on which the background goroutines were not waited for")
				}
				// the root is dropped: a call that installs a nil root (and closes the previous one)
				if f := cc.StaticCallee(); f != nil && f.Blocks != nil && len(storesToField(f, a.WRoot)) > 0 {
					for i, arg := range cc.Args {
						if i < len(f.Params) && namedOf(f.Params[i].Type()) == a.Snapshot && isNilConst(arg) {
							st.Flags |= fRootDropped
						}
					}
				}
			}
			return true
		}
		ex2.OnReturn = func(r *ssa.Return, st *PState) {
			if st.Flags&fUnlocked == 0 {
				p2 = append(p2, "a path returns at "+c.Pos(r.Pos())+" without Directory.Unlock")
			}
			if st.Flags&fRootDropped == 0 {
				p2 = append(p2, "a path returns at "+c.Pos(r.Pos())+" without dropping the root snapshot: the segments it loaded stay open and share-locked (also when OpenWriter closes a writer it gave up on after loading the snapshots)")
			}
		}
		ex2.Run()
		c.Check(len(p2) == 0 && !ex2.Exceeded, "close releases the directory lock in "+FuncName(fn), c.Pos(fn.Pos()), "Unlock on every path, after asyncTasks.Wait(); the root is dropped on every path", uniqJoin(p2))
	}
}

// ---- R6 ------------------------------------------------------------------------------------------

func ruleC11R6(c *Ctx) {
	if c.Config.GOOS == "windows" {
		// Windows refuses to delete a file that is open without FILE_SHARE_DELETE; the build-tagged
		// remove() relies on that instead of a lock. The rule is about the flock-based (unix) variant.
		c.OK("unlink behind an exclusive open (windows: enforced by the OS sharing mode)", "-", "not applicable on GOOS=windows")
		return
	}
	m := newPersistModel(c.Program)
	for _, fn := range directoryMethodImpls(c.Program, "Remove") {
		s := &Summarizer{SiteOutcomes: m.outcomes, InlineDefers: true}
		bad := false
		nRemove := 0
		s.OnInstr = func(f *ssa.Function, in ssa.Instruction, st *PState) bool {
			if cc := callOf(in); cc != nil && (isPkgFunc(cc, "os", "Remove") || isPkgFunc(cc, "os", "RemoveAll")) {
				nRemove++
				if st.Flags&pfOpened == 0 {
					bad = true
				}
			}
			return true
		}
		s.Summary(fn)
		if nRemove == 0 {
			continue
		}
		c.Check(!bad && !s.Exceeded, "unlink behind an exclusive open in "+FuncName(fn), c.Pos(fn.Pos()), "os.Remove only on paths where the exclusive (flock) open succeeded: files share-locked by readers are kept",
			"a file is unlinked without holding its exclusive lock: a Reader that has it open (shared lock) loses it")
	}
}

// reachesThroughFields: v satisfies pred, derives from such a value, or is a literal one of
// whose fields (recursively) holds such a value.
func reachesThroughFields(v ssa.Value, pred func(ssa.Value) bool, d int) bool {
	if d > 6 || v == nil {
		return false
	}
	// an error (or a number, string, bool) computed by a call that received the resource does not hold it
	if dependsOnStop(v, pred, func(y ssa.Value) bool {
		if pred(y) {
			return false
		}
		t := y.Type()
		if isErrorType(t) {
			return true
		}
		_, basic := t.Underlying().(*types.Basic)
		return basic
	}) {
		return true
	}
	v = stripIface(v)
	al, ok := v.(*ssa.Alloc)
	if !ok || al.Referrers() == nil {
		return false
	}
	for _, r := range *al.Referrers() {
		var addr ssa.Value
		switch x := r.(type) {
		case *ssa.FieldAddr:
			addr = x
		case *ssa.IndexAddr:
			addr = x
		default:
			continue
		}
		if addr.Referrers() == nil {
			continue
		}
		for _, rr := range *addr.Referrers() {
			if st, ok := rr.(*ssa.Store); ok && st.Addr == addr && reachesThroughFields(st.Val, pred, d+1) {
				return true
			}
		}
	}
	return false
}

// isSnapshotAddRef: a Snapshot method that increments the reference count.
func isSnapshotAddRef(f *ssa.Function, a *IdxAnchors) bool {
	if f == nil || f.Blocks == nil || f.Signature.Recv() == nil || namedOf(f.Signature.Recv().Type()) != a.Snapshot {
		return false
	}
	ok := false
	for _, st := range storesToField(f, a.SnapRefs) {
		if b, isBin := st.Val.(*ssa.BinOp); isBin && b.Op == token.ADD {
			ok = true
		}
	}
	return ok
}

// readsRootFieldAndReturns: the root getter (it hands the reference to its caller).
func readsRootFieldAndReturns(fn *ssa.Function, a *IdxAnchors) bool {
	return readsRootField(fn, a) && fn.Signature.Results().Len() == 1 && namedOf(fn.Signature.Results().At(0).Type()) == a.Snapshot
}
