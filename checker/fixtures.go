package main

import (
	"embed"
	"io/fs"
	"path/filepath"
	"strings"
)

// Positive fixtures: small files that are added *in memory* (packages.Config.Overlay)
// to bluge packages. Each declares functions named zzfix_* that break exactly one rule;
// the rule must report them on every run (proof that the rule engine is alive). They
// are never written to /repo and nobody calls them, so they do not change the verdict on
// real code. A line `//verif:expect <rule> <marker>` in a fixture file declares that
// <rule> must report a violated obligation whose construct contains <marker>.

//go:embed fixtures
var fixtureFS embed.FS

func fixtureFiles() map[string]string {
	rv := map[string]string{}
	_ = fs.WalkDir(fixtureFS, "fixtures", func(path string, d fs.DirEntry, err error) error {
		if err != nil || d.IsDir() || !strings.HasSuffix(path, ".go.txt") {
			return nil
		}
		b, err := fixtureFS.ReadFile(path)
		if err != nil {
			return nil
		}
		rel := strings.TrimSuffix(strings.TrimPrefix(path, "fixtures/"), ".txt")
		rv[rel] = string(b)
		return nil
	})
	return rv
}

func fixtureOverlay(o *options) map[string][]byte {
	ov := map[string][]byte{}
	for rel, src := range fixtureFiles() {
		ov[filepath.Join(o.repo, rel)] = []byte(src)
	}
	return ov
}

func fixtureExpectations() map[string][]string {
	rv := map[string][]string{}
	for _, src := range fixtureFiles() {
		for _, line := range strings.Split(src, "\n") {
			line = strings.TrimSpace(line)
			if !strings.HasPrefix(line, "//verif:expect ") {
				continue
			}
			f := strings.Fields(strings.TrimPrefix(line, "//verif:expect "))
			if len(f) == 2 {
				rv[f[0]] = append(rv[f[0]], f[1])
			}
		}
	}
	return rv
}
