// verifcheck: repository-specific static analysis deciding structural necessary
// conditions of the bluge properties in /verif/properties.jsonl. Nothing in /repo is
// executed; the program is loaded with go/packages, built into go/ssa and analysed.
package main

import (
	"encoding/json"
	"flag"
	"fmt"
	"os"
	"path/filepath"
	"sort"
	"strings"
	"time"
)

// PropertyInfo describes one claimed property.
type PropertyInfo struct {
	ID          string
	Title       string
	Rules       []string // rule ids, in report order (may include rules primarily owned by another property)
	Decides     string   // the clauses decided
	NotCovered  string   // what of the statement is not decided
	Assumptions []string
	Technique   string // deciding method, when it differs from the common description
}

var (
	ruleReg  = map[string]*RuleInfo{}
	propReg  = map[string]*PropertyInfo{}
	propList []string
)

func registerRule(r *RuleInfo) {
	if _, dup := ruleReg[r.ID]; dup {
		panic("duplicate rule " + r.ID)
	}
	ruleReg[r.ID] = r
}

func registerProperty(p *PropertyInfo) {
	propReg[p.ID] = p
	propList = append(propList, p.ID)
	sort.Strings(propList)
}

var commonAssumptions = []string{
	"the Go type checker, go/ssa construction and dominator tree are correct",
	"bluge's index/search code uses neither reflection nor unsafe to reach the analysed fields and functions",
	"third-party libraries (ice segments, roaring, bluge_segment_api, os, flock, mmap) behave as documented",
	"structural necessary conditions only: the behavioural statement itself is not proven",
}

type options struct {
	repo, verif, property, tier, replay, mutant string
	all, list, jsonOut, noFixtures, manifest    bool
}

func main() {
	var o options
	flag.StringVar(&o.repo, "repo", "/repo", "repository root")
	flag.StringVar(&o.verif, "verif", "", "verification root (default: parent of the binary's directory, or /verif)")
	flag.StringVar(&o.property, "property", "", "property id (C01..)")
	flag.StringVar(&o.tier, "tier", "", "quick | thorough")
	flag.StringVar(&o.replay, "replay", "", "violation report file to replay")
	flag.StringVar(&o.mutant, "mutant", "", "internal: analyse with one in-memory mutant applied")
	flag.BoolVar(&o.all, "all", false, "run every property in one process")
	flag.BoolVar(&o.list, "list", false, "list properties and rules")
	flag.BoolVar(&o.jsonOut, "json", false, "internal: print obligations as JSON")
	flag.BoolVar(&o.noFixtures, "nofixtures", false, "internal: do not load fixtures")
	flag.BoolVar(&o.manifest, "manifest", false, "print MANIFEST.json generated from the registry")
	flag.Parse()
	if o.verif == "" {
		o.verif = "/verif"
		if exe, err := os.Executable(); err == nil {
			d := filepath.Dir(filepath.Dir(exe))
			if _, err := os.Stat(filepath.Join(d, "checker")); err == nil {
				o.verif = d
			}
		}
	}
	if o.tier == "" {
		o.tier = os.Getenv("VERIF_TIER")
	}
	if o.tier == "" {
		o.tier = "quick"
	}
	if abs, err := filepath.Abs(o.repo); err == nil {
		o.repo = abs
	}
	switch {
	case o.manifest:
		emitManifest()
		return
	case o.list:
		for _, id := range propList {
			p := propReg[id]
			fmt.Printf("%s %s\n", p.ID, p.Title)
			for _, r := range p.Rules {
				ri := ruleReg[r]
				if ri == nil {
					fmt.Printf("   %s  <MISSING>\n", r)
					continue
				}
				fmt.Printf("   %-8s floor=%-3d %s\n", ri.ID, ri.Floor, ri.Title)
			}
		}
		return
	case o.replay != "":
		os.Exit(doReplay(&o))
	case o.mutant != "":
		os.Exit(doMutantChild(&o))
	case o.all:
		rc := 0
		for _, id := range propList {
			o2 := o
			o2.property = id
			if c := runProperty(&o2); c > rc {
				rc = c
			}
		}
		os.Exit(rc)
	case o.property != "":
		os.Exit(runProperty(&o))
	}
	flag.Usage()
	os.Exit(2)
}

var progCache = map[string]*Program{}

func loadCached(o *options, bc BuildConfig, withFixtures bool) (*Program, bool, error) {
	key := bc.String() + fmt.Sprint(withFixtures)
	if p, ok := progCache[key]; ok {
		return p, withFixtures, nil
	}
	var overlay map[string][]byte
	if withFixtures {
		overlay = fixtureOverlay(o)
	}
	p, err := LoadProgram(o.repo, bc, overlay)
	if err != nil && withFixtures {
		// the fixtures are written against the pinned tree; if an edit of the repository
		// makes them fail to type-check, analyse the repository without them.
		fmt.Printf("NOTE: fixtures did not load against this tree (%v); analysing without fixtures\n", firstLine(err.Error()))
		p2, err2 := LoadProgram(o.repo, bc, nil)
		if err2 != nil {
			return nil, false, err2
		}
		progCache[bc.String()+"false"] = p2
		return p2, false, nil
	}
	if err != nil {
		return nil, false, err
	}
	progCache[key] = p
	return p, withFixtures, nil
}

func firstLine(s string) string {
	if i := strings.IndexByte(s, '\n'); i >= 0 {
		s = s[:i]
	}
	if len(s) > 300 {
		s = s[:300]
	}
	return s
}

func isFixture(o Obligation) bool {
	return strings.Contains(o.Construct, "zzfix") || strings.Contains(o.Pos, "zz_verif_fixture")
}

// analyse runs the rules of property pid on one program and returns obligations.
func analyse(p *Program, pid string) ([]Obligation, []string) {
	var obs []Obligation
	var notes []string
	for _, rid := range propReg[pid].Rules {
		r := ruleReg[rid]
		if r == nil {
			obs = append(obs, Obligation{Rule: rid, Construct: "rule not implemented", Verdict: Undecided, Pos: "-"})
			continue
		}
		runRule(p, r, &obs, &notes)
	}
	return obs, notes
}

func runProperty(o *options) int {
	start := time.Now()
	pi := propReg[o.property]
	if pi == nil {
		fmt.Printf("unknown property %q\n", o.property)
		return 2
	}
	evPath := filepath.Join(o.verif, "evidence", pi.ID+".json")
	configs := []BuildConfig{{"linux", "amd64"}}
	if o.tier == "thorough" {
		configs = append(configs, BuildConfig{"windows", "amd64"}, BuildConfig{"darwin", "arm64"}, BuildConfig{"linux", "386"})
	}
	kfs, err := loadKnownFindings(filepath.Join(o.verif, "known_findings.json"))
	if err != nil {
		fmt.Printf("ERROR reading known_findings.json: %v\n", err)
		return 2
	}

	var all []Obligation
	var notes []string
	var loadErrs []string
	fixturesLoaded := false
	nFuncs, nPkgs := 0, 0
	for i, bc := range configs {
		p, fx, err := loadCached(o, bc, i == 0 && !o.noFixtures)
		if err != nil {
			loadErrs = append(loadErrs, err.Error())
			fmt.Printf("ERROR loading %s: %v\n", bc, firstLine(err.Error()))
			continue
		}
		if i == 0 {
			fixturesLoaded = fx
			nFuncs = len(p.SrcFuncs())
			nPkgs = len(p.Pkgs)
		}
		obs, ns := analyse(p, pi.ID)
		all = append(all, obs...)
		notes = append(notes, ns...)
	}
	sortObligations(all)
	if o.jsonOut {
		for _, ob := range all {
			fmt.Fprintf(os.Stderr, "OBL %s %s | %s @ %s :: %s\n", ob.Verdict, ob.Rule, ob.Construct, ob.Pos, ob.Detail)
		}
	}

	// partition
	var real, fix []Obligation
	for _, ob := range all {
		if isFixture(ob) {
			fix = append(fix, ob)
		} else {
			real = append(real, ob)
		}
	}
	rc := 0
	bump := func(c int) {
		if c == 1 || (rc != 1 && c > rc) {
			rc = c
		}
	}
	if len(loadErrs) > 0 {
		bump(2)
	}

	// per-rule counts (primary configuration decides floors; other configs add instances of build-tagged files)
	counts := map[string]*RuleCount{}
	for _, rid := range pi.Rules {
		r := ruleReg[rid]
		rc := &RuleCount{Rule: rid}
		if r != nil {
			rc.Title, rc.Floor, rc.Decides = r.Title, r.Floor, r.Covers
		}
		counts[rid] = rc
	}
	seenKey := map[string]bool{}
	var violations, knownHits []Obligation
	for _, ob := range real {
		c := counts[ob.Rule]
		if c == nil {
			c = &RuleCount{Rule: ob.Rule}
			counts[ob.Rule] = c
		}
		if ob.Config == configs[0].String() {
			c.Instances++
		}
		k := ob.Key()
		switch ob.Verdict {
		case Discharged:
			if ob.Config == configs[0].String() {
				c.Discharged++
			}
		case Violated:
			if seenKey[k] {
				continue
			}
			seenKey[k] = true
			c.Violated++
			if kf := matchKnown(kfs, ob); kf != nil {
				knownHits = append(knownHits, ob)
			} else {
				violations = append(violations, ob)
			}
		case Undecided:
			if seenKey[k] {
				continue
			}
			seenKey[k] = true
			c.Undecided++
		}
	}
	for _, ob := range knownHits {
		kf := matchKnown(kfs, ob)
		fmt.Printf("KNOWN-FINDING: property=%s %s | %s at %s: %s\n", pi.ID, ob.Rule, ob.Construct, ob.Pos, kf.What)
	}
	for _, ob := range violations {
		rp := filepath.Join(o.verif, "reports", pi.ID, shortHash(ob.Key())+".json")
		_ = writeJSON(rp, map[string]interface{}{"property": pi.ID, "obligation": ob, "repo": o.repo})
		fmt.Printf("VIOLATION property=%s replay=%s\n", pi.ID, rp)
		fmt.Printf("  rule %s (%s)\n  construct: %s\n  at %s [%s]\n  %s\n", ob.Rule, ruleTitle(ob.Rule), ob.Construct, ob.Pos, ob.Config, ob.Detail)
		bump(1)
	}
	for _, ob := range real {
		if ob.Verdict == Undecided {
			fmt.Printf("UNDECIDED property=%s %s | %s at %s: %s\n", pi.ID, ob.Rule, ob.Construct, ob.Pos, ob.Detail)
			bump(2)
		}
	}
	var ruleCounts []RuleCount
	for _, rid := range pi.Rules {
		c := counts[rid]
		ruleCounts = append(ruleCounts, *c)
		if c.Instances < c.Floor {
			fmt.Printf("VACUOUS property=%s rule %s matched %d instances, fewer than the %d confirmed on the pinned tree\n", pi.ID, rid, c.Instances, c.Floor)
			bump(2)
		}
	}
	// fixtures: every rule that has fixtures must fire on each of them
	fixFired, fixExpected := 0, 0
	var fixMissing []string
	if fixturesLoaded {
		want := fixtureExpectations()
		for _, rid := range pi.Rules {
			for _, marker := range want[rid] {
				fixExpected++
				hit := false
				for _, ob := range fix {
					if ob.Rule == rid && ob.Verdict == Violated && strings.Contains(ob.Construct, marker) {
						hit = true
					}
				}
				if hit {
					fixFired++
				} else {
					fixMissing = append(fixMissing, rid+":"+marker)
				}
			}
		}
		for _, m := range fixMissing {
			fmt.Printf("FIXTURE-NOT-FIRED property=%s %s: the rule engine did not report the seeded positive example\n", pi.ID, m)
			bump(2)
		}
	}

	// thorough: self-validation against in-memory mutants
	var mres *mutantSummary
	if o.tier == "thorough" && len(loadErrs) == 0 {
		mres = runMutants(o, pi.ID)
		if mres.Missed > 0 {
			for _, m := range mres.MissedIDs {
				fmt.Printf("SELFTEST-FAILED property=%s mutant %s applied but was not reported\n", pi.ID, m)
			}
			if rc == 0 {
				rc = 3
			}
		}
	}

	// evidence
	nOb, nDis := 0, 0
	for _, c := range ruleCounts {
		nOb += c.Instances
		nDis += c.Discharged
	}
	var samples []interface{}
	perRule := map[string]int{}
	for _, ob := range real {
		if ob.Config != configs[0].String() {
			continue
		}
		if perRule[ob.Rule] < 4 || ob.Verdict != Discharged {
			perRule[ob.Rule]++
			samples = append(samples, map[string]string{"obligation": ob.Key(), "at": ob.Pos, "verdict": string(ob.Verdict), "why": ob.Detail})
		}
	}
	var cfgs []string
	for _, c := range configs {
		cfgs = append(cfgs, c.String())
	}
	cov := map[string]interface{}{
		"explanation": "Static analysis (go/packages + go/ssa, path-sensitive nil/bool exploration, data-dependence slices, call graph) of /repo's current source; nothing is executed. Decided: " +
			pi.Decides + " NOT decided: " + pi.NotCovered,
		"obligations":         nOb,
		"discharged":          nDis,
		"rules":               ruleCounts,
		"samples":             samples,
		"exhaustive":          true,
		"build_configs":       cfgs,
		"packages_analysed":   nPkgs,
		"functions_analysed":  nFuncs,
		"fixtures_expected":   fixExpected,
		"fixtures_fired":      fixFired,
		"fixtures_loaded":     fixturesLoaded,
		"known_findings_hit":  len(knownHits),
		"undecided":           countVerdict(real, Undecided),
		"notes":               notes,
		"checker_cmd":         "bin/verifcheck -property " + pi.ID + " -tier " + o.tier,
		"rule":                "every instance of each rule's anchor construct in the loaded program is enumerated (obligation = rule | construct); instance counts below the hand-confirmed floor fail the check",
		"load_errors":         loadErrs,
		"evaluations":         nOb,
		"distinct_nontrivial": nOb,
	}
	if mres != nil {
		cov["mutants"] = mres
	}
	seed := 0
	fmt.Sscanf(os.Getenv("VERIF_SEED"), "%d", &seed)
	ev := Evidence{PropertyID: pi.ID, Tier: o.tier, Seed: seed, Level: "other", Coverage: cov,
		Assumptions: append(append([]string{}, commonAssumptions...), pi.Assumptions...),
		WallS:       time.Since(start).Seconds(), Violations: len(violations)}
	if err := writeJSON(evPath, ev); err != nil {
		fmt.Printf("ERROR writing evidence: %v\n", err)
		bump(2)
	}
	status := "HELD"
	switch rc {
	case 1:
		status = "VIOLATED"
	case 2:
		status = "UNDECIDED"
	case 3:
		status = "SELFTEST-FAILED"
	}
	fmt.Printf("%s %s tier=%s obligations=%d discharged=%d violations=%d known=%d fixtures=%d/%d configs=%v wall=%.1fs\n",
		pi.ID, status, o.tier, nOb, nDis, len(violations), len(knownHits), fixFired, fixExpected, cfgs, time.Since(start).Seconds())
	return rc
}

func countVerdict(obs []Obligation, v Verdict) int {
	n := 0
	for _, o := range obs {
		if o.Verdict == v {
			n++
		}
	}
	return n
}

func ruleTitle(id string) string {
	if r := ruleReg[id]; r != nil {
		return r.Title
	}
	return ""
}

// doReplay re-decides the obligation stored in a violation report and prints the diagnosis.
func doReplay(o *options) int {
	b, err := os.ReadFile(o.replay)
	if err != nil {
		fmt.Printf("cannot read %s: %v\n", o.replay, err)
		return 2
	}
	var rep struct {
		Property   string     `json:"property"`
		Obligation Obligation `json:"obligation"`
	}
	if err := json.Unmarshal(b, &rep); err != nil {
		fmt.Printf("bad report: %v\n", err)
		return 2
	}
	bc := BuildConfig{"linux", "amd64"}
	if parts := strings.Split(rep.Obligation.Config, "/"); len(parts) == 2 {
		bc = BuildConfig{parts[0], parts[1]}
	}
	p, err := LoadProgram(o.repo, bc, nil)
	if err != nil {
		fmt.Printf("ERROR loading: %v\n", err)
		return 2
	}
	r := ruleReg[rep.Obligation.Rule]
	if r == nil {
		fmt.Printf("unknown rule %s\n", rep.Obligation.Rule)
		return 2
	}
	var obs []Obligation
	var notes []string
	runRule(p, r, &obs, &notes)
	for _, ob := range obs {
		if ob.Key() == rep.Obligation.Key() {
			fmt.Printf("%s | %s\n  at %s\n  verdict: %s\n  %s\n", ob.Rule, ob.Construct, ob.Pos, ob.Verdict, ob.Detail)
			if ob.Verdict == Violated {
				fmt.Printf("VIOLATION property=%s replay=%s\n", rep.Property, o.replay)
				return 1
			}
			if ob.Verdict == Undecided {
				return 2
			}
			return 0
		}
	}
	fmt.Printf("obligation %q no longer exists in the current tree\n", rep.Obligation.Key())
	return 2
}
