package main

import (
	"fmt"
	"go/token"
	"go/types"
	"sort"
	"strings"

	"golang.org/x/tools/go/ssa"
)

// C09.R4: ties are broken by index order, i.e. by the order in which the collector met the
// hits (DocumentMatch.HitNumber, unique within one search, also across the readers of a
// multi-search, where document numbers restart at 0 for every reader).
//  (a) SortOrder.Compare reads no field of a match other than the sort values and the
//      hit number, and its result once all keys tie is decided by comparing the two hit
//      numbers.
//  (b) where a pseudo match (search-after key) is compared with a real hit, the field made
//      equal beforehand to allow the exact tie is that same tie-break field.

func init() {
	registerRule(&RuleInfo{ID: "C09.R4", Title: "ties between equal sort keys are broken by hit number", Floor: 2, Run: ruleC09R4,
		Covers: "the comparator SortOrder.Compare; every comparison against a pseudo match held in a collector field"})
}

func ruleC09R4(c *Ctx) {
	cmp := c.Method(pkgSearch, "SortOrder", "Compare")
	dm := c.Named(pkgSearch, "DocumentMatch")
	fHit := c.Field(pkgSearch, "DocumentMatch", "HitNumber")
	fSortVal := c.Field(pkgSearch, "DocumentMatch", "SortValue")
	// (a)
	read := map[string]bool{}
	hitOf := map[ssa.Value]bool{} // params whose HitNumber is loaded
	eachInstr(cmp, func(in ssa.Instruction) {
		fa, ok := in.(*ssa.FieldAddr)
		if !ok || namedOf(fa.X.Type()) != dm {
			return
		}
		fv := fieldVar(fa)
		read[fv.Name()] = true
		if fv == fHit {
			hitOf[fa.X] = true
		}
	})
	var other []string
	for f := range read {
		if f != fHit.Name() && f != fSortVal.Name() {
			other = append(other, f)
		}
	}
	sort.Strings(other)
	both := len(cmp.Params) >= 3 && hitOf[cmp.Params[1]] && hitOf[cmp.Params[2]]
	cmpOK := false
	eachInstr(cmp, func(in ssa.Instruction) {
		b, ok := in.(*ssa.BinOp)
		if !ok || b.Op != token.GTR && b.Op != token.LSS {
			return
		}
		fx, bx := loadedField(b.X)
		fy, by := loadedField(b.Y)
		if fx == fHit && fy == fHit && bx != by {
			cmpOK = true
		}
	})
	c.Check(len(other) == 0 && both && cmpOK, "SortOrder.Compare breaks ties by hit number only", c.Pos(cmp.Pos()),
		"reads only SortValue and HitNumber of the two matches and orders equal keys by HitNumber",
		fmt.Sprintf("the comparator reads other fields of the matches %v, or does not order equal keys by the hit numbers of both matches (both read: %v, ordered: %v): document numbers restart for every reader of a multi-search, so equal keys are no longer returned in index order", other, both, cmpOK))

	// (b)
	n := 0
	for _, fn := range c.SrcFuncs() {
		if !strings.HasPrefix(funcPkgPath(fn), pkgSearch) {
			continue
		}
		eachInstr(fn, func(in ssa.Instruction) {
			ci, ok := in.(*ssa.Call)
			if !ok || ci.Common().StaticCallee() != cmp {
				return
			}
			args := ci.Common().Args
			for k := 1; k <= 2 && k < len(args); k++ {
				f, _ := loadedField(args[k])
				if f == nil || namedOf(f.Type()) != dm {
					continue
				}
				if _, isPtr := f.Type().(*types.Pointer); !isPtr {
					continue
				}
				// args[k] is a match kept in a field; it is a pseudo match when the field only ever
				// receives matches built in place (never a collected hit)
				pseudo, assigned := true, false
				for _, g := range c.SrcFuncs() {
					eachInstr(g, func(x ssa.Instruction) {
						st, ok := x.(*ssa.Store)
						if !ok {
							return
						}
						fa, ok := st.Addr.(*ssa.FieldAddr)
						if !ok || fieldVar(fa) != f {
							return
						}
						if isNilConst(st.Val) {
							return
						}
						assigned = true
						if al, isAl := st.Val.(*ssa.Alloc); !isAl || al.Comment != "complit" {
							pseudo = false
						}
					})
				}
				if !pseudo || !assigned {
					continue
				}
				n++
				key := fmt.Sprintf("pseudo match #%d compared in %s is made to tie on the tie-break field", n, FuncName(fn))
				otherArg := args[3-k]
				okStore := false
				var stored []string
				eachInstr(fn, func(g ssa.Instruction) {
					st, ok := g.(*ssa.Store)
					if !ok {
						return
					}
					fa, ok := st.Addr.(*ssa.FieldAddr)
					if !ok || namedOf(fa.X.Type()) != dm || !sameBase(fa.X, args[k]) && fa.X != args[k] {
						return
					}
					if !(st.Block() == ci.Block() && instrIndex(st) < instrIndex(ci) || st.Block() != ci.Block() && st.Block().Dominates(ci.Block())) {
						return
					}
					stored = append(stored, fieldVar(fa).Name())
					f2, b2 := loadedField(st.Val)
					if fieldVar(fa) == fHit && f2 == fHit && (b2 == otherArg || sameBase(b2, otherArg)) {
						okStore = true
					}
				})
				c.Check(okStore && len(stored) == 1, key, c.Pos(ci.Pos()), "HitNumber of the pseudo match is set from the hit before the comparison",
					fmt.Sprintf("before the comparison the pseudo match gets %v from the hit instead of exactly the hit number: an exact match of the search-after key no longer ties, so the boundary hit is returned twice or skipped", stored))
			}
		})
	}
}
