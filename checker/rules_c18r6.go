package main

import (
	"fmt"
	"go/types"
	"sort"
	"strings"

	"golang.org/x/tools/go/ssa"
)

// C18.R6 - analysis components keep no per-call state.
//
// One analyzer value is used by all analysis workers of a batch and by concurrent queries. A
// component (Tokenizer, TokenFilter, CharFilter, Analyzer) that writes one of its own fields
// while analysing, or hands an object it owns to code outside the module that may write it
// (a stemmer environment, a scratch buffer, a decoder), gives different tokens for the same
// text depending on what else is being analysed. Decided per component method (Tokenize /
// Filter / Analyze) and the methods of the same receiver it calls:
//   (a) no store to a field of the receiver (or through a pointer loaded from one);
//   (b) a pointer / map / slice loaded from a receiver field is handed to a function outside
//       the module only when the callee is in the read-only table below.

func init() {
	registerRule(&RuleInfo{ID: "C18.R6", Title: "analysis components keep no per-call state", Floor: 40, Run: ruleC18R6,
		Covers: "every Tokenize / Filter / Analyze method of a Tokenizer, TokenFilter, CharFilter or Analyzer in the module, and the methods of the same receiver they call"})
}

// read-only (concurrency-safe) foreign callees that may receive an object owned by a component
var c18ReadOnlyCallees = map[string]string{
	"(*regexp.Regexp).FindAllIndex":            "regexp.Regexp is safe for concurrent use",
	"(*regexp.Regexp).FindAllSubmatchIndex":    "regexp.Regexp is safe for concurrent use",
	"(*regexp.Regexp).ReplaceAll":              "regexp.Regexp is safe for concurrent use",
	"(*regexp.Regexp).FindAll":                 "regexp.Regexp is safe for concurrent use",
	"(*regexp.Regexp).Match":                   "regexp.Regexp is safe for concurrent use",
	"(*regexp.Regexp).FindIndex":               "regexp.Regexp is safe for concurrent use",
	"(*regexp.Regexp).NumSubexp":               "regexp.Regexp is safe for concurrent use",
	"(*regexp.Regexp).ReplaceAllFunc":          "regexp.Regexp is safe for concurrent use",
	"(*regexp.Regexp).FindAllStringSubmatchIndex": "regexp.Regexp is safe for concurrent use",
	"bytes.Equal":     "reads its arguments",
	"bytes.Compare":   "reads its arguments",
	"bytes.HasPrefix": "reads its arguments",
	"bytes.HasSuffix": "reads its arguments",
	"bytes.Contains":  "reads its arguments",
	"bytes.Index":     "reads its arguments",
	"(golang.org/x/text/transform.Transformer).Transform": "stateless for the normalisation forms used (norm.Form values)",
	"(golang.org/x/text/unicode/norm.Form).Bytes":         "norm.Form is a value",
}

func ruleC18R6(c *Ctx) {
	var roots []*ssa.Function
	for _, im := range [][2]string{{"Tokenizer", "Tokenize"}, {"TokenFilter", "Filter"}, {"CharFilter", "Filter"}} {
		m := c.IfaceMethod(pkgAnalysis, im[0], im[1])
		it := c.Obj(pkgAnalysis, im[0]).Type()
		roots = append(roots, c.Light().Impls(m, it)...)
	}
	roots = append(roots, c.Method(pkgAnalysis, "Analyzer", "Analyze"))
	sortFuncs(c.Program, roots)
	seenRoot := map[*ssa.Function]bool{}
	for _, root := range roots {
		if seenRoot[root] || root.Blocks == nil || root.Signature.Recv() == nil || !c.InRepo(root) {
			continue
		}
		seenRoot[root] = true
		recvT := namedOf(root.Signature.Recv().Type())
		// the root and the methods of the same receiver type it (transitively) calls on its own receiver
		group := []*ssa.Function{root}
		inGroup := map[*ssa.Function]bool{root: true}
		for i := 0; i < len(group); i++ {
			for _, fn := range withAnon(group[i]) {
				eachInstr(fn, func(in ssa.Instruction) {
					cc := callOf(in)
					if cc == nil {
						return
					}
					cal := staticCallee(cc)
					if cal == nil || cal.Blocks == nil || inGroup[cal] || cal.Signature.Recv() == nil || namedOf(cal.Signature.Recv().Type()) != recvT {
						return
					}
					inGroup[cal] = true
					group = append(group, cal)
				})
			}
		}
		var bad []string
		for _, top := range group {
			recv := top.Params[0]
			for _, fn := range withAnon(top) {
				ownedBy := func(v ssa.Value) bool { return c18RootedAtRecv(v, recv, fn, top) }
				eachInstr(fn, func(in ssa.Instruction) {
					switch x := in.(type) {
					case *ssa.Store:
						switch ad := x.Addr.(type) {
						case *ssa.FieldAddr:
							if ownedBy(ad.X) {
								bad = append(bad, "stores into field "+fieldVar(ad).Name()+" of the component (or of an object it owns) at "+c.Pos(x.Pos()))
							}
						case *ssa.IndexAddr:
							if ownedBy(ad.X) {
								bad = append(bad, "stores into an element of a list or array the component owns at "+c.Pos(x.Pos()))
							}
						}
					case *ssa.MapUpdate:
						if ownedBy(x.Map) {
							bad = append(bad, "updates a map the component owns at "+c.Pos(x.Pos()))
						}
					}
					cc := callOf(in)
					if cc == nil {
						return
					}
					cal := staticCallee(cc)
					if cal != nil && strings.HasPrefix(funcPkgPath(cal), modPath) {
						return // bluge code: followed when it is a method of the receiver; other bluge helpers get values, see (a) there
					}
					name := ""
					if cal != nil {
						name = cal.String()
					} else if cc.IsInvoke() {
						if cc.Method.Pkg() != nil && strings.HasPrefix(cc.Method.Pkg().Path(), modPath) {
							return // a nested component of the module: every implementation is judged itself
						}
						name = "(" + cc.Value.Type().String() + ")." + cc.Method.Name()
					} else {
						return // call of a function value
					}
					if builtinName(cc) != "" {
						return
					}
					args := cc.Args
					if cc.IsInvoke() {
						args = append([]ssa.Value{cc.Value}, args...)
					}
					for _, a := range args {
						switch a.Type().Underlying().(type) {
						case *types.Pointer, *types.Map, *types.Slice, *types.Interface:
						default:
							continue
						}
						if !ownedBy(a) {
							continue
						}
						if _, ok := c18ReadOnlyCallees[name]; ok {
							continue
						}
						bad = append(bad, "hands an object the component owns to "+name+" at "+c.Pos(in.Pos())+" (not known to be read-only)")
					}
				})
			}
		}
		sort.Strings(bad)
		key := "component method " + FuncName(root) + " keeps no state between calls"
		c.Check(len(bad) == 0, key, c.Pos(root.Pos()), "no write to the component's own fields and no owned object handed to foreign code that may write it",
			fmt.Sprintf("%s: one analyzer value is shared by the batch's analysis workers and by concurrent queries, so tokens of one text depend on what else is being analysed", uniqJoin(bad)))
	}
}

// c18RootedAtRecv: v is the receiver, or was loaded (through fields, elements and pointers) from it.
func c18RootedAtRecv(v ssa.Value, recv ssa.Value, fn, top *ssa.Function) bool {
	for i := 0; i < 20 && v != nil; i++ {
		if v == recv {
			return true
		}
		switch x := v.(type) {
		case *ssa.FieldAddr:
			v = x.X
		case *ssa.Field:
			v = x.X
		case *ssa.IndexAddr:
			v = x.X
		case *ssa.Index:
			v = x.X
		case *ssa.Slice:
			v = x.X
		case *ssa.ChangeType:
			v = x.X
		case *ssa.MakeInterface:
			v = x.X
		case *ssa.ChangeInterface:
			v = x.X
		case *ssa.UnOp:
			if _, ok := isLoad(x); ok {
				v = x.X
			} else {
				return false
			}
		case *ssa.FreeVar:
			// closure inside the method capturing the receiver
			if fn != top && x.Name() == recv.Name() {
				return true
			}
			return false
		case *ssa.Lookup:
			v = x.X
		default:
			return false
		}
	}
	return false
}
