package main

import (
	"fmt"
	"go/token"
	"go/types"

	"golang.org/x/tools/go/ssa"
)

func init() {
	registerProperty(&PropertyInfo{
		ID:    "C05",
		Title: "Concurrent batches are linearizable; readers see a prefix of that order",
		Rules: []string{"C05.R1", "C05.R2", "C05.R3", "C02.R3", "C02.R8", "C04.R4"},
		Decides: "the serialisation skeleton linearizability rests on: Writer.root is swapped only by functions that run in the single introducer goroutine, before any goroutine is started, or after all of them were waited for; the three introduction channels are received from in exactly one function, started by exactly one go statement; in the function that applies a batch, the obsoletions applied to each CURRENT root element are the optimistic ones looked up by that element's id or, on a lookup miss, recomputed with DocsMatchingTerms on that element, and a recomputation failure publishes nothing; every path of the apply function closes the applied channel exactly once, after the root swap unless an error was sent; swap and reader acquisition are atomic with respect to rootLock (C02.R3, C04.R4).",
		NotCovered: "linearizability of recorded histories (runtime); fairness of the select; the content of the segments.",
	})
	registerRule(&RuleInfo{ID: "C05.R1", Title: "single swap point, single consumer of introductions", Floor: 6, Run: ruleC05R1,
		Covers: "who-may-call the root swap; who receives from the introduction channels; go statements"})
	registerRule(&RuleInfo{ID: "C05.R2", Title: "stale optimistic obsoletes are re-checked against the current root", Floor: 2, Run: ruleC05R2,
		Covers: "data flow of the delta applied to each carried root element in the batch-apply function"})
	registerRule(&RuleInfo{ID: "C05.R3", Title: "the applied channel is closed exactly once, after the root swap", Floor: 1, Run: ruleC05R3,
		Covers: "path-sensitive typestate of every function that applies a segmentIntroduction"})
}

// introducerRoots: go targets of OpenWriter that reach a root swapper.
func introducerRoots(p *Program) (intro []*ssa.Function, others []*ssa.Function) {
	a := p.Idx()
	g := p.Light()
	for _, t := range goTargets(a.OpenWriter) {
		found := false
		for fn := range g.Reach(t) {
			if fn.Blocks != nil && p.InRepo(fn) && isRootSwapper(fn, a) {
				found = true
			}
		}
		if found {
			intro = append(intro, t)
		} else {
			others = append(others, t)
		}
	}
	return
}

func ruleC05R1(c *Ctx) {
	a := c.Idx()
	g := c.Light()
	intro, others := introducerRoots(c.Program)
	if len(intro) != 1 {
		c.Violate("exactly one goroutine swaps the root", c.Pos(a.OpenWriter.Pos()), fmt.Sprintf("%d go statements of OpenWriter start a function that can swap Writer.root (exactly one introducer is required)", len(intro)))
		return
	}
	root := intro[0]
	// exactly one go statement starts it
	nGo := 0
	for _, fn := range c.FuncsIn(pkgIndex) {
		eachInstr(fn, func(in ssa.Instruction) {
			if gi, ok := in.(*ssa.Go); ok && gi.Common().StaticCallee() == root {
				nGo++
			}
		})
	}
	c.Check(nGo == 1, "introducer "+FuncName(root)+" is started exactly once", c.Pos(root.Pos()), "one go statement", fmt.Sprintf("%d go statements start the introducer", nGo))

	inIntro := g.Reach(root)
	inOthers := g.Reach(others...)
	// public entry points other than OpenWriter (methods/functions of package index that are exported or called from outside)
	n := 0
	for _, fn := range c.FuncsIn(pkgIndex) {
		eachInstr(fn, func(in ssa.Instruction) {
			ci, ok := in.(*ssa.Call)
			if !ok || ci.Common().StaticCallee() == nil || !isRootSwapper(ci.Common().StaticCallee(), a) {
				return
			}
			n++
			key := fmt.Sprintf("root swap call #%d in %s", n, FuncName(fn))
			pos := c.Pos(in.Pos())
			top := enclosingTop(fn)
			switch {
			case inIntro[top] && !inOthers[top] && !calledFromOutsideGoroutines(c, top, inIntro):
				c.OK(key, pos, "only reachable from the introducer goroutine")
			case onlyCalledBeforeGo(c, top, a):
				c.OK(key, pos, "only reachable from OpenWriter before any goroutine is started")
			case afterWait(ci, a):
				c.OK(key, pos, "after asyncTasks.Wait(): all background goroutines have terminated")
			default:
				c.Violate(key, pos, "Writer.root is swapped from a place that is neither the introducer goroutine, nor OpenWriter before the goroutines start, nor Close after they were waited for: two swaps can interleave and lose a batch")
			}
		})
	}
	// receivers of the introduction channels
	for _, elem := range []*types.Named{a.SegIntro, a.PersistIntro, a.SegMerge} {
		var recvFns []string
		nrecv := 0
		for _, fn := range c.FuncsIn(pkgIndex) {
			eachInstr(fn, func(in ssa.Instruction) {
				hit := false
				switch x := in.(type) {
				case *ssa.UnOp:
					if x.Op == token.ARROW && chanElemNamed(x.X.Type()) == elem {
						hit = true
					}
				case *ssa.Select:
					for _, st := range x.States {
						if st.Dir == types.RecvOnly && chanElemNamed(st.Chan.Type()) == elem {
							hit = true
						}
					}
				}
				if hit {
					nrecv++
					recvFns = append(recvFns, FuncName(fn))
				}
			})
		}
		key := "channel of *" + elem.Obj().Name() + " has a single consumer"
		ok := nrecv == 1 && len(recvFns) == 1 && recvFns[0] == FuncName(root)
		c.Check(ok, key, c.Pos(root.Pos()), "received from only in "+FuncName(root), fmt.Sprintf("received from at %d site(s): %v (must be exactly the introducer loop)", nrecv, recvFns))
	}
}

func chanElemNamed(t types.Type) *types.Named {
	ch, ok := t.Underlying().(*types.Chan)
	if !ok {
		return nil
	}
	return namedOf(ch.Elem())
}

// calledFromOutsideGoroutines: has fn a caller that is not itself confined to the introducer reach?
func calledFromOutsideGoroutines(c *Ctx, fn *ssa.Function, inIntro map[*ssa.Function]bool) bool {
	for _, cs := range c.Light().Callers(fn) {
		if _, isGo := cs.Instr.(*ssa.Go); isGo {
			continue // the go statement that starts the goroutine
		}
		if !inIntro[enclosingTop(cs.Caller)] {
			return true
		}
	}
	return false
}

// onlyCalledBeforeGo: every call chain into fn starts in OpenWriter at a call that no go statement can reach.
func onlyCalledBeforeGo(c *Ctx, fn *ssa.Function, a *IdxAnchors) bool {
	seen := map[*ssa.Function]bool{}
	var ok func(f *ssa.Function) bool
	ok = func(f *ssa.Function) bool {
		if seen[f] {
			return true
		}
		seen[f] = true
		callers := c.Light().Callers(f)
		if len(callers) == 0 {
			return false
		}
		for _, cs := range callers {
			caller := enclosingTop(cs.Caller)
			if caller == a.OpenWriter {
				reachedByGo := false
				eachInstr(a.OpenWriter, func(in ssa.Instruction) {
					if _, isGo := in.(*ssa.Go); isGo && reachesInstr(in, cs.Instr) {
						reachedByGo = true
					}
				})
				if reachedByGo {
					return false
				}
				continue
			}
			if !ok(caller) {
				return false
			}
		}
		return true
	}
	return ok(fn)
}

// afterWait: the call is dominated by (*sync.WaitGroup).Wait on Writer.asyncTasks.
func afterWait(call *ssa.Call, a *IdxAnchors) bool {
	ok := false
	eachInstr(call.Parent(), func(in ssa.Instruction) {
		ci, isCall := in.(*ssa.Call)
		if !isCall {
			return
		}
		f := ci.Common().StaticCallee()
		if f != nil && f.Pkg != nil && f.Pkg.Pkg.Path() == "sync" && f.Name() == "Wait" && len(ci.Common().Args) == 1 {
			if fa, isFA := ci.Common().Args[0].(*ssa.FieldAddr); isFA && fieldVar(fa).Name() == "asyncTasks" && instrDominates(ci, call) {
				ok = true
			}
		}
	})
	return ok
}

// applyFunctions: functions of package index with a *segmentIntroduction parameter that call the root swap.
func applyFunctions(p *Program) []*ssa.Function {
	a := p.Idx()
	var rv []*ssa.Function
	for _, fn := range p.FuncsIn(pkgIndex) {
		hasParam := false
		for _, prm := range fn.Params {
			if namedOf(prm.Type()) == a.SegIntro {
				hasParam = true
			}
		}
		if !hasParam {
			continue
		}
		swaps := false
		eachInstr(fn, func(in ssa.Instruction) {
			if ci, ok := in.(*ssa.Call); ok && ci.Common().StaticCallee() != nil && isRootSwapper(ci.Common().StaticCallee(), a) {
				swaps = true
			}
		})
		if swaps {
			rv = append(rv, fn)
		}
	}
	return rv
}

func ruleC05R2(c *Ctx) {
	a := c.Idx()
	docsMatching := c.IfaceMethod("github.com/blugelabs/bluge_segment_api", "Segment", "DocsMatchingTerms")
	for _, fn := range applyFunctions(c.Program) {
		name := FuncName(fn)
		// the carried literal and the delta stored into its deleted field
		var lit *ssa.Alloc
		var elem string
		eachInstr(fn, func(in ssa.Instruction) {
			al, ok := in.(*ssa.Alloc)
			if !ok || al.Comment != "complit" || namedOf(al.Type()) != a.SegSnap {
				return
			}
			ids := fieldStoresOfLiteral(al, a.SSID)
			if len(ids) == 1 {
				if f, base := loadedField(ids[0].Val); f == a.SSID && segElemPath(base, a) != "" {
					lit, elem = al, segElemPath(base, a)
				}
			}
		})
		if lit == nil {
			c.Violate("obsoletes applied per current root element in "+name, c.Pos(fn.Pos()), "the batch-apply function does not carry the current root's segments into the new root")
			continue
		}
		// the root whose elements are carried is obtained in this function (the CURRENT root, not the optimistic one)
		currentOK := dependsOn(firstOf(fieldStoresOfLiteral(lit, a.SSID)).Val, func(y ssa.Value) bool {
			ci, ok := y.(*ssa.Call)
			return ok && ci.Common().StaticCallee() != nil && readsRootField(ci.Common().StaticCallee(), a)
		})
		c.Check(currentOK, "carried elements come from the current root in "+name, c.Pos(lit.Pos()), "the iterated snapshot is obtained from the root getter inside the apply function",
			"the apply function does not iterate the root it obtains itself: batches that landed since the optimistic snapshot are ignored")
		// delta: lookup by elem id with recomputation on miss
		var lookup *ssa.Lookup
		var recompute *ssa.Call
		eachInstr(fn, func(in ssa.Instruction) {
			switch x := in.(type) {
			case *ssa.Lookup:
				if f, _ := loadedField(x.X); f == a.SIObsoletes && x.CommaOk {
					if fi, base := loadedField(x.Index); fi == a.SSID && segElemPath(base, a) == elem {
						lookup = x
					}
				}
			case *ssa.Call:
				if x.Common().IsInvoke() && callsIfaceMethod(x.Common(), docsMatching) {
					if loadsField(x.Common().Args[0], a.SIIDTerms) && dependsOn(x.Common().Value, func(y ssa.Value) bool { return segElemPath(y, a) == elem }) {
						recompute = x
					}
				}
			}
		})
		if lookup == nil || recompute == nil {
			c.Violate("obsoletes looked up by element id and recomputed on a miss in "+name, c.Pos(fn.Pos()),
				fmt.Sprintf("lookup in the introduction's obsoletes by the current element's id: %v; DocsMatchingTerms(idTerms) on the current element: %v", lookup != nil, recompute != nil))
			continue
		}
		// recomputation sits on the miss edge
		okRes := resultValue2(lookup, 1)
		onMiss := false
		if okRes != nil && okRes.Referrers() != nil {
			for _, r := range *okRes.Referrers() {
				if iff, isIf := r.(*ssa.If); isIf && edgeDominates(iff, 1, recompute.Block()) {
					onMiss = true
				}
			}
		}
		// the value stored into deleted derives from both
		both := false
		for _, st := range fieldStoresOfLiteral(lit, a.SSDeleted) {
			dl := dependsOn(st.Val, func(y ssa.Value) bool { return y == ssa.Value(lookup) })
			dr := dependsOn(st.Val, func(y ssa.Value) bool { return y == ssa.Value(recompute) })
			if dl && dr {
				both = true
			}
		}
		// on every edge into the merge of the two sources, the optimistic value may only arrive from the hit edge
		lookupVal := resultValue2(lookup, 0)
		missLeak := false
		eachInstr(fn, func(in ssa.Instruction) {
			ph, isPhi := in.(*ssa.Phi)
			if !isPhi || lookupVal == nil {
				return
			}
			usesLookup, usesRecompute := false, false
			for _, e := range ph.Edges {
				if e == lookupVal {
					usesLookup = true
				}
				if dependsOn(e, func(y ssa.Value) bool { return y == ssa.Value(recompute) }) {
					usesRecompute = true
				}
			}
			if !usesLookup || !usesRecompute {
				return
			}
			for i, e := range ph.Edges {
				if e != lookupVal {
					continue
				}
				pred := ph.Block().Preds[i]
				hit := false
				for _, r := range *okRes.Referrers() {
					if iff, isIf := r.(*ssa.If); isIf {
						if pred == iff.Block() && iff.Block().Succs[0] == ph.Block() || edgeDominates(iff, 0, pred) {
							hit = true
						}
					}
				}
				if !hit {
					missLeak = true
				}
			}
		})
		if missLeak {
			onMiss = false
		}
		c.Check(onMiss && both, "obsoletes looked up by element id and recomputed on a miss in "+name, c.Pos(lookup.Pos()),
			"delta = obsoletes[elem.id] or, on the miss edge, DocsMatchingTerms(idTerms) on that element; it flows into the new deleted set",
			fmt.Sprintf("recomputation on the miss edge: %v; both sources flow into the deleted set: %v", onMiss, both))
		// failure of the recomputation publishes nothing
		ev := errResult(recompute)
		bad := false
		if ev != nil {
			ex := &Explorer{Fn: fn, Keep: map[ssa.Value]bool{ev: true}}
			ex.OnInstr = func(in ssa.Instruction, st *PState) bool {
				if in == ssa.Instruction(recompute) {
					return true
				}
				if ci, ok := in.(*ssa.Call); ok && ci.Common().StaticCallee() != nil && isRootSwapper(ci.Common().StaticCallee(), a) && st.Eval(ev) == TriYes {
					bad = true
				}
				return true
			}
			ex.Run()
		}
		c.Check(ev != nil && !bad, "a failed recomputation publishes nothing in "+name, c.Pos(recompute.Pos()), "no root swap is reachable on the failure edge", "the root is swapped although computing the obsoletions failed: the old versions stay live next to the new ones")
	}
}

func firstOf(s []*ssa.Store) *ssa.Store {
	if len(s) == 0 {
		panic(unresolvedAnchor{"store"})
	}
	return s[0]
}

func resultValue2(v ssa.Value, idx int) ssa.Value {
	if v.Referrers() == nil {
		return nil
	}
	for _, r := range *v.Referrers() {
		if e, ok := r.(*ssa.Extract); ok && e.Index == idx {
			return e
		}
	}
	return nil
}

// readsRootField: the function loads Writer.root (the root getter).
func readsRootField(fn *ssa.Function, a *IdxAnchors) bool {
	if fn.Blocks == nil {
		return false
	}
	found := false
	eachInstr(fn, func(in ssa.Instruction) {
		if u, ok := in.(*ssa.UnOp); ok && u.Op == token.MUL && isFieldAddr(u.X, a.WRoot) {
			found = true
		}
	})
	return found
}

func ruleC05R3(c *Ctx) {
	a := c.Idx()
	const (
		fSwapped uint64 = 1 << iota
		fSentErr
		fClosed
	)
	for _, fn := range applyFunctions(c.Program) {
		name := FuncName(fn)
		var problems []string
		ex := &Explorer{Fn: fn}
		ex.OnInstr = func(in ssa.Instruction, st *PState) bool {
			switch x := in.(type) {
			case *ssa.Send:
				if dependsOnField(x.Chan, a.SIApplied) {
					if st.Eval(x.X) != TriYes {
						problems = append(problems, "a possibly-nil value is sent on applied at "+c.Pos(in.Pos()))
					}
					st.Flags |= fSentErr
				}
			case *ssa.Call:
				cc := x.Common()
				if cc.StaticCallee() != nil && isRootSwapper(cc.StaticCallee(), a) {
					if st.Flags&(fSentErr|fClosed) != 0 {
						problems = append(problems, "the root is swapped after the caller was already answered")
					}
					st.Flags |= fSwapped
				}
				if builtinName(cc) == "close" && dependsOnField(cc.Args[0], a.SIApplied) {
					if st.Flags&fClosed != 0 {
						problems = append(problems, "applied is closed twice on a path (panic)")
					}
					if st.Flags&(fSwapped|fSentErr) == 0 {
						problems = append(problems, "applied is closed at "+c.Pos(in.Pos())+" (Batch returns nil) on a path where the new root has not been published: a Reader obtained right after Batch returned may miss the batch")
					}
					st.Flags |= fClosed
				}
			}
			return true
		}
		ex.OnReturn = func(r *ssa.Return, st *PState) {
			if st.Flags&(fClosed|fSentErr) == 0 {
				problems = append(problems, "a path returns at "+c.Pos(r.Pos())+" without answering on applied (neither an error send nor a close): the Batch caller blocks forever")
			}
			if st.Flags&fSentErr != 0 && st.Flags&fSwapped != 0 {
				problems = append(problems, "an error is reported although the root was swapped")
			}
		}
		ex.Run()
		if ex.Exceeded {
			c.Undecided("applied channel protocol in "+name, c.Pos(fn.Pos()), "path exploration did not finish")
			continue
		}
		c.Check(len(problems) == 0, "applied channel protocol in "+name, c.Pos(fn.Pos()), "every path closes applied exactly once, after the root swap or after sending an error, and an error path publishes nothing", uniqJoin(problems))
	}
}
