package main

import (
	"golang.org/x/tools/go/ssa"
	"fmt"
	"go/ast"
	"go/token"
	"go/types"
	"math/big"
	"strings"
)

const pkgSimilarity = modPath + "/search/similarity"

func init() {
	registerProperty(&PropertyInfo{
		ID:    "C17",
		Title: "Scores obey the BM25 laws and explanations derive the score",
		Rules: []string{"C17.R1", "C17.R2", "C17.R3", "C17.R4", "C04.R5", "C17.R5"},
		Decides: "explanation faithfulness as an algebraic identity over the source expressions (narrow claim): for every scorer, the expression returned by Score/ScoreComposite and the value handed to the explanation returned by Explain/ExplainComposite are the same rational function of the scorer's fields and arguments (per branch, with the branch condition substituted); for every explanation whose message quotes a formula ('computed as <formula> from:') the formula, with its symbols bound to the children by the leading symbol of their messages, is the same rational function as the node's value, and a 'sum of:' node carries the sum over exactly the constituents whose explanations are its children; every searcher that builds a match assigns Score from the explanation's Value on the explain branch and from the scorer called with the same arguments otherwise. the children list of an explanation does not share its backing array with a field or package variable. the document frequency used for idf is not a stale value of a recycled iterator (C04.R5). A *TokenFreq stored into a TokenFrequencies map by one of its methods is allocated there (entries are updated in place by later merges into a composite field; an adopted entry would inflate the source field's frequency) (C17.R5).",
		NotCovered: "positivity, finiteness and monotonicity of the scores in the statistics (numeric), floating-point rounding (the identity is over the reals).",
	})
	registerRule(&RuleInfo{ID: "C17.R1", Title: "Score and Explain compute the same expression", Floor: 2, Run: ruleC17R1, Covers: "every Scorer / CompositeScorer implementation"})
	registerRule(&RuleInfo{ID: "C17.R2", Title: "the formula quoted in an explanation message equals the node's value", Floor: 4, Run: ruleC17R2, Covers: "every NewExplanation call of package similarity with a 'computed as' or 'sum of' message"})
	registerRule(&RuleInfo{ID: "C17.R3", Title: "searchers publish the explained value", Floor: 4, Run: ruleC17R3, Covers: "every function of search/searcher that branches on options.Explain"})
}

// scorerEnv builds an evaluation environment for methods of a scorer type, with the fields
// that are computed once in a constructor literal expanded to their definition.
func scorerEnv(c *Ctx, tn *types.Named) *algEnv {
	pk := c.All[tn.Obj().Pkg().Path()]
	env := &algEnv{c: c, info: pk.TypesInfo, vars: map[types.Object]ratFunc{}, paths: map[types.Object]string{}, fieldDefs: map[string]ratFunc{}}
	for _, f := range pk.Syntax {
		ast.Inspect(f, func(n ast.Node) bool {
			fd, ok := n.(*ast.FuncDecl)
			if !ok || fd.Body == nil || fd.Recv != nil {
				return true
			}
			ast.Inspect(fd.Body, func(m ast.Node) bool {
				cl, ok := m.(*ast.CompositeLit)
				if !ok {
					return true
				}
				if t := pk.TypesInfo.TypeOf(cl); t == nil || namedOf(t) != tn {
					return true
				}
				sub := env.child()
				sub.depth = 0
				// parameters that are stored verbatim into a field stand for that field
				for _, el := range cl.Elts {
					kv, ok := el.(*ast.KeyValueExpr)
					if !ok {
						continue
					}
					k, _ := kv.Key.(*ast.Ident)
					v, isId := kv.Value.(*ast.Ident)
					if k == nil || !isId {
						continue
					}
					obj := pk.TypesInfo.Uses[v]
					if obj == nil {
						continue
					}
					if b, ok := obj.Type().Underlying().(*types.Basic); ok && b.Info()&types.IsNumeric != 0 {
						sub.vars[obj] = rfAtom(atomName("$." + k.Name))
					} else {
						sub.paths[obj] = "$." + k.Name
					}
				}
				for _, el := range cl.Elts {
					kv, ok := el.(*ast.KeyValueExpr)
					if !ok {
						continue
					}
					k, _ := kv.Key.(*ast.Ident)
					if _, isId := kv.Value.(*ast.Ident); isId || k == nil {
						continue
					}
					if tv := pk.TypesInfo.TypeOf(kv.Value); tv != nil {
						if b, ok := tv.Underlying().(*types.Basic); ok && b.Info()&types.IsNumeric != 0 {
							if rf, err := sub.eval(kv.Value); err == nil {
								if _, isConst := pk.TypesInfo.Types[kv.Value]; isConst && pk.TypesInfo.Types[kv.Value].Value != nil {
									continue // a constant default is still a free parameter of the scorer
								}
								env.fieldDefs["$."+k.Name] = rf
							}
						}
					}
				}
				return true
			})
			return true
		})
	}
	return env
}

func methodDecl(c *Ctx, tn *types.Named, name string) (*ast.FuncDecl, *types.Info) {
	for _, t := range []types.Type{tn, types.NewPointer(tn)} {
		ms := types.NewMethodSet(t)
		if sel := ms.Lookup(tn.Obj().Pkg(), name); sel != nil {
			if fn, ok := sel.Obj().(*types.Func); ok {
				return c.funcDecl(fn)
			}
		}
	}
	return nil, nil
}

// evalMethod evaluates the returns of a method with its numeric parameters as atoms.
func evalMethod(env *algEnv, fd *ast.FuncDecl, inf *types.Info) ([]algReturn, *algEnv, error) {
	e := env.child()
	e.depth = 0
	e.info = inf
	if fd.Recv != nil && len(fd.Recv.List) == 1 && len(fd.Recv.List[0].Names) == 1 {
		e.recv = inf.Defs[fd.Recv.List[0].Names[0]]
		// value receivers of basic kind (ConstantScorer): the receiver itself is an atom
	}
	rets, err := e.evalBody(fd.Body)
	return rets, e, err
}

func applyCond(rf ratFunc, ce *condEq) ratFunc {
	if ce != nil && !ce.neg {
		return rfSubst(rf, ce.atom, ce.val)
	}
	return rf
}

func ruleC17R1(c *Ctx) {
	pairs := [][2]string{{"Score", "Explain"}, {"ScoreComposite", "ExplainComposite"}}
	ifaces := []*types.Interface{c.Iface(pkgSearch, "Scorer"), c.Iface(pkgSearch, "CompositeScorer")}
	for _, tn := range c.Light().named {
		if tn.Obj().Pkg().Path() != pkgSimilarity {
			continue
		}
		for i, it := range ifaces {
			if !types.Implements(tn, it) && !types.Implements(types.NewPointer(tn), it) {
				continue
			}
			key := fmt.Sprintf("%s.%s and %s.%s agree", tn.Obj().Name(), pairs[i][0], tn.Obj().Name(), pairs[i][1])
			sd, sinf := methodDecl(c, tn, pairs[i][0])
			ed, einf := methodDecl(c, tn, pairs[i][1])
			if sd == nil || ed == nil {
				c.Undecided(key, "-", "method declaration not found")
				continue
			}
			env := scorerEnv(c, tn)
			srets, _, err := evalMethod(env, sd, sinf)
			if err != nil || len(srets) != 1 || len(srets[0].values) != 1 {
				c.Undecided(key, c.Pos(sd.Pos()), fmt.Sprintf("cannot canonicalise %s: %v", pairs[i][0], err))
				continue
			}
			score, err := srets[0].env.eval(srets[0].values[0])
			if err != nil {
				c.Undecided(key, c.Pos(sd.Pos()), "cannot canonicalise the score expression: "+err.Error())
				continue
			}
			erets, _, err := evalMethod(env, ed, einf)
			if err != nil || len(erets) == 0 {
				c.Undecided(key, c.Pos(ed.Pos()), fmt.Sprintf("cannot canonicalise %s: %v", pairs[i][1], err))
				continue
			}
			var problems []string
			for _, r := range erets {
				call, ok := r.env.resolveExpr(r.values[0]).(*ast.CallExpr)
				if !ok {
					problems = append(problems, "a return of "+pairs[i][1]+" is not an explanation literal")
					continue
				}
				val, _, _, err := r.env.explanationOfCall(call)
				if err != nil {
					c.Undecided(key, c.Pos(call.Pos()), "cannot canonicalise the explanation value: "+err.Error())
					problems = nil
					continue
				}
				a, b := applyCond(val, r.condEq), applyCond(score, r.condEq)
				if !rfEqual(a, b) {
					br := ""
					if r.cond != "" {
						br = " on the branch " + r.cond
					}
					problems = append(problems, fmt.Sprintf("the explanation value%s is %s but the score is %s", br, rfString(a), rfString(b)))
				}
			}
			c.Check(len(problems) == 0, key, c.Pos(ed.Pos()), "identical rational functions: "+rfString(score), uniqJoin(problems))
		}
	}
}

func leadingSymbol(msg string) string {
	for i, r := range msg {
		if r == ',' || r == ' ' || r == '(' || r == ':' {
			return msg[:i]
		}
	}
	return msg
}

type explChild struct {
	expr ast.Expr
	cond *condEq // present only when cond holds
}

// childrenOf resolves the children arguments of a NewExplanation call: explicit arguments,
// or a variadic slice variable built by a literal and appends in the same function.
func childrenOf(env *algEnv, fd *ast.FuncDecl, call *ast.CallExpr) []explChild {
	var rv []explChild
	if len(call.Args) <= 2 {
		return rv
	}
	if call.Ellipsis == token.NoPos {
		for _, a := range call.Args[2:] {
			rv = append(rv, explChild{expr: a})
		}
		return rv
	}
	id, ok := call.Args[2].(*ast.Ident)
	if !ok {
		return rv
	}
	obj := env.info.Uses[id]
	var walk func(stmts []ast.Stmt, ce *condEq)
	walk = func(stmts []ast.Stmt, ce *condEq) {
		for _, st := range stmts {
			switch s := st.(type) {
			case *ast.DeclStmt:
				if gd, ok := s.Decl.(*ast.GenDecl); ok {
					for _, sp := range gd.Specs {
						if vs, ok := sp.(*ast.ValueSpec); ok {
							for i, nm := range vs.Names {
								if env.info.Defs[nm] == obj && i < len(vs.Values) {
									if cl, ok := vs.Values[i].(*ast.CompositeLit); ok {
										for _, el := range cl.Elts {
											rv = append(rv, explChild{expr: el, cond: ce})
										}
									}
								}
							}
						}
					}
				}
			case *ast.AssignStmt:
				for i, l := range s.Lhs {
					lid, ok := l.(*ast.Ident)
					if !ok || i >= len(s.Rhs) {
						continue
					}
					lo := env.info.Uses[lid]
					if lo == nil {
						lo = env.info.Defs[lid]
					}
					if lo != obj {
						continue
					}
					switch r := s.Rhs[i].(type) {
					case *ast.CompositeLit:
						for _, el := range r.Elts {
							rv = append(rv, explChild{expr: el, cond: ce})
						}
					case *ast.CallExpr:
						if fid, ok := r.Fun.(*ast.Ident); ok && fid.Name == "append" {
							for _, a := range r.Args[1:] {
								rv = append(rv, explChild{expr: a, cond: ce})
							}
						}
					}
				}
			case *ast.IfStmt:
				_, c2 := env.renderCond(s.Cond)
				walk(s.Body.List, c2)
			case *ast.RangeStmt:
				walk(s.Body.List, ce)
			}
		}
	}
	walk(fd.Body.List, nil)
	return rv
}

func ruleC17R2(c *Ctx) {
	pk := c.All[pkgSimilarity]
	if pk == nil {
		panic(unresolvedAnchor{"package " + pkgSimilarity})
	}
	n := 0
	for _, f := range pk.Syntax {
		for _, d := range f.Decls {
			fd, ok := d.(*ast.FuncDecl)
			if !ok || fd.Body == nil {
				continue
			}
			var tn *types.Named
			if fd.Recv != nil && len(fd.Recv.List) == 1 {
				tn = namedOf(pk.TypesInfo.TypeOf(fd.Recv.List[0].Type))
			}
			var env *algEnv
			if tn != nil {
				env = scorerEnv(c, tn)
			} else {
				env = &algEnv{c: c, info: pk.TypesInfo, vars: map[types.Object]ratFunc{}, paths: map[types.Object]string{}, fieldDefs: map[string]ratFunc{}}
			}
			_, menv, err := evalMethod(env, fd, pk.TypesInfo)
			if err != nil {
				hasExpl := false
				ast.Inspect(fd.Body, func(nd ast.Node) bool {
					if call, ok := nd.(*ast.CallExpr); ok {
						if callee := calleeObject(pk.TypesInfo, call); callee != nil && callee.Name() == "NewExplanation" {
							hasExpl = true
						}
					}
					return true
				})
				if hasExpl {
					c.Undecided("explanations built in "+fd.Name.Name, c.Pos(fd.Pos()), "cannot evaluate the function body symbolically: "+err.Error())
				}
				continue
			}
			ast.Inspect(fd.Body, func(nd ast.Node) bool {
				call, ok := nd.(*ast.CallExpr)
				if !ok {
					return true
				}
				callee := calleeObject(pk.TypesInfo, call)
				if callee == nil || callee.Name() != "NewExplanation" || len(call.Args) < 2 {
					return true
				}
				msg := stringOf(pk.TypesInfo, call.Args[1])
				fname := fd.Name.Name
				if tn != nil {
					fname = tn.Obj().Name() + "." + fname
				}
				if strings.HasPrefix(msg, "sum of") {
					n++
					key := fmt.Sprintf("'sum of:' node in %s sums its children", fname)
					val, err := menv.eval(call.Args[0])
					kids := childrenOf(menv, fd, call)
					okSum := err == nil && len(val.num) == 1 && pEqual(val.den, pConst(big.NewRat(1, 1)))
					atom := ""
					if okSum {
						for k, v := range val.num {
							atom = k
							if !strings.HasPrefix(k, "SUM〈") || v.Cmp(big.NewRat(1, 1)) != 0 {
								okSum = false
							}
						}
					}
					// the children are the explanations of the same range
					if okSum {
						for _, kd := range kids {
							if !strings.Contains(atom, ".Score") || !strings.HasSuffix(types.ExprString(kd.expr), ".Explanation") {
								okSum = false
							}
						}
						if len(kids) == 0 {
							okSum = false
						}
					}
					c.Check(okSum, key, c.Pos(call.Pos()), "value = "+atom+", children = the constituents' explanations", fmt.Sprintf("the value of a 'sum of:' node is %s, not the plain sum of the scores of the constituents whose explanations are its children", rfStringOrErr(val, err)))
					return true
				}
				idx := strings.Index(msg, "computed as ")
				if idx < 0 {
					return true
				}
				n++
				formula := strings.TrimSpace(strings.TrimSuffix(strings.TrimSpace(msg[idx+len("computed as "):]), "from:"))
				key := fmt.Sprintf("formula '%s' in %s equals the node's value", formula, fname)
				val, err := menv.eval(call.Args[0])
				if err != nil {
					c.Undecided(key, c.Pos(call.Pos()), "cannot canonicalise the value: "+err.Error())
					return true
				}
				kids := childrenOf(menv, fd, call)
				type bound struct {
					rf   ratFunc
					cond *condEq
				}
				binds := map[string]bound{}
				for _, kd := range kids {
					var sym string
					var rf ratFunc
					switch x := menv.resolveExpr(kd.expr).(type) {
					case *ast.CallExpr:
						v, m, _, err := menv.explanationOfCall(x)
						if err != nil {
							continue
						}
						sym, rf = leadingSymbol(m), v
					default:
						p, ok := menv.selectorPath(kd.expr)
						if !ok {
							continue
						}
						parts := strings.Split(p, ".")
						sym, rf = parts[len(parts)-1], rfAtom(atomName(p+".Value"))
					}
					binds[sym] = bound{rf, kd.cond}
				}
				// cases: all conditional children present / each conditional child absent (its condition negated)
				type acase struct {
					subst []*condEq
					drop  map[string]bool
				}
				cases := []acase{{}}
				for sym, b := range binds {
					if b.cond != nil && b.cond.neg { // child present iff atom != val  => absent iff atom == val
						cases = append(cases, acase{subst: []*condEq{{atom: b.cond.atom, val: b.cond.val}}, drop: map[string]bool{sym: true}})
					}
				}
				var problems []string
				for _, cs := range cases {
					p := &fParser{toks: tokenizeFormula(formula)}
					p.bind = func(sym string) (ratFunc, error) {
						if b, ok := binds[sym]; ok && !cs.drop[sym] {
							return b.rf, nil
						}
						if cs.drop[sym] {
							b := binds[sym]
							return rfConst(b.cond.val), nil // the absent child's symbol equals the constant of its condition
						}
						return ratFunc{}, fmt.Errorf("symbol %q of the formula is not the leading symbol of any child", sym)
					}
					frf, err := p.expr()
					if err != nil || p.pos != len(p.toks) {
						problems = append(problems, fmt.Sprintf("cannot evaluate the formula: %v", err))
						continue
					}
					v2 := val
					for _, s := range cs.subst {
						v2 = rfSubst(v2, s.atom, s.val)
						frf = rfSubst(frf, s.atom, s.val)
					}
					if !rfEqual(frf, v2) {
						problems = append(problems, fmt.Sprintf("formula gives %s but the value is %s", rfString(frf), rfString(v2)))
					}
				}
				c.Check(len(problems) == 0, key, c.Pos(call.Pos()), "formula[children] and value are the same rational function", uniqJoin(problems))
				return true
			})
		}
	}
}

func rfStringOrErr(rf ratFunc, err error) string {
	if err != nil {
		return "<" + err.Error() + ">"
	}
	return rfString(rf)
}

func ruleC17R3(c *Ctx) {
	// On the type-checked SSA form (independent of how the branches are written): in every
	// function of the searcher package that assigns DocumentMatch.Score,
	//  - a score taken from an explanation is that match's own Explanation.Value, and the
	//    explanation stored there comes from S.Explain*(args);
	//  - a score computed directly comes from S.Score*(args);
	//  - the function has both, from the same scorer S with the same arguments and with
	//    related methods (Explain/Score, ExplainComposite/ScoreComposite).
	fScore := c.Field(pkgSearch, "DocumentMatch", "Score")
	fExpl := c.Field(pkgSearch, "DocumentMatch", "Explanation")
	fValue := c.Field(pkgSearch, "Explanation", "Value")
	for _, fn := range c.FuncsIn(pkgSearcher) {
		type scoreStore struct {
			st   *ssa.Store
			call ssa.CallInstruction // the Explain* / Score* call it derives from
			kind string              // "explain" | "plain" | "other"
		}
		var stores []scoreStore
		explStores := map[string]*ssa.Call{} // access path of the match -> explain call stored into its Explanation
		eachInstr(fn, func(in ssa.Instruction) {
			st, ok := in.(*ssa.Store)
			if !ok {
				return
			}
			fa, ok := st.Addr.(*ssa.FieldAddr)
			if !ok || fieldVar(fa) != fExpl {
				return
			}
			if call, ok := st.Val.(*ssa.Call); ok {
				explStores[matchKey(fa.X)] = call
			}
		})
		eachInstr(fn, func(in ssa.Instruction) {
			st, ok := in.(*ssa.Store)
			if !ok {
				return
			}
			fa, ok := st.Addr.(*ssa.FieldAddr)
			if !ok || fieldVar(fa) != fScore {
				return
			}
			ss := scoreStore{st: st, kind: "other"}
			if call, ok := st.Val.(*ssa.Call); ok {
				if n := callMethodName(call.Common()); n == "Score" || n == "ScoreComposite" {
					ss.kind, ss.call = "plain", call
				}
			} else if f, base := loadedField(st.Val); f == fValue {
				if f2, m := loadedField(base); f2 == fExpl && matchKey(m) == matchKey(fa.X) {
					if call := explStores[matchKey(fa.X)]; call != nil {
						if n := callMethodName(call.Common()); n == "Explain" || n == "ExplainComposite" {
							ss.kind, ss.call = "explain", call
						}
					}
				}
			}
			stores = append(stores, ss)
		})
		if len(stores) == 0 {
			continue
		}
		key := "explain and plain score agree in " + FuncName(fn)
		var problems []string
		var ex, pl *scoreStore
		for i := range stores {
			switch stores[i].kind {
			case "explain":
				ex = &stores[i]
			case "plain":
				pl = &stores[i]
			default:
				// scores copied or accumulated from other matches are not this rule's business
				if _, isCall := stores[i].st.Val.(*ssa.Call); isCall {
					problems = append(problems, "a score is assigned at "+c.Pos(stores[i].st.Pos())+" from a call that is neither Score* nor an explanation's Value")
				}
			}
		}
		if ex == nil && pl == nil {
			if len(problems) == 0 {
				continue
			}
		} else if ex == nil || pl == nil {
			problems = append(problems, "the function assigns the score only on one of the two ways (from the explanation's Value / from the scorer): with and without explanations the score is produced differently")
		} else {
			ec, pc := ex.call.Common(), pl.call.Common()
			en, pn := callMethodName(ec), callMethodName(pc)
			if !(en == "Explain" && pn == "Score" || en == "ExplainComposite" && pn == "ScoreComposite") {
				problems = append(problems, "the two ways call unrelated methods "+en+" / "+pn)
			}
			er, ea := recvAndArgs(ec)
			pr, pa := recvAndArgs(pc)
			if !sameExpr(er, pr, 0) {
				problems = append(problems, "the two ways use different scorers")
			}
			if len(ea) != len(pa) {
				problems = append(problems, "the two ways pass different arguments")
			} else {
				for i := range ea {
					if !sameExpr(ea[i], pa[i], 0) {
						problems = append(problems, fmt.Sprintf("argument %d differs between the explained and the plain score", i+1))
					}
				}
			}
		}
		c.Check(len(problems) == 0, key, c.Pos(fn.Pos()), "Score = Explanation.Value of S.Explain*(args) when explaining, S.Score*(args) otherwise: same scorer, same arguments", uniqJoin(problems))
	}
}

func matchKey(v ssa.Value) string {
	if p := accessPath(v); p != "" {
		return p
	}
	return "val:" + v.Name()
}

func callMethodName(cc *ssa.CallCommon) string {
	if cc.IsInvoke() {
		return cc.Method.Name()
	}
	if f := cc.StaticCallee(); f != nil {
		return f.Name()
	}
	return ""
}

func recvAndArgs(cc *ssa.CallCommon) (ssa.Value, []ssa.Value) {
	if cc.IsInvoke() {
		return cc.Value, cc.Args
	}
	if f := cc.StaticCallee(); f != nil && f.Signature.Recv() != nil && len(cc.Args) > 0 {
		return cc.Args[0], cc.Args[1:]
	}
	return nil, cc.Args
}

// sameExpr: two SSA values denote the same expression (go/ssa performs no CSE): identical
// value, equal access paths, or calls of the same method on the same receiver with the same
// arguments (getters such as termMatch.Frequency()).
func sameExpr(a, b ssa.Value, d int) bool {
	if a == b {
		return true
	}
	if a == nil || b == nil || d > 6 {
		return false
	}
	if pa, pb := accessPath(a), accessPath(b); pa != "" && pa == pb {
		return true
	}
	switch x := a.(type) {
	case *ssa.Call:
		y, ok := b.(*ssa.Call)
		if !ok || callMethodName(x.Common()) != callMethodName(y.Common()) || callMethodName(x.Common()) == "" {
			return false
		}
		xr, xa := recvAndArgs(x.Common())
		yr, ya := recvAndArgs(y.Common())
		if (xr == nil) != (yr == nil) || xr != nil && !sameExpr(xr, yr, d+1) || len(xa) != len(ya) {
			return false
		}
		for i := range xa {
			if !sameExpr(xa[i], ya[i], d+1) {
				return false
			}
		}
		return true
	case *ssa.Convert:
		y, ok := b.(*ssa.Convert)
		return ok && sameExpr(x.X, y.X, d+1)
	case *ssa.ChangeType:
		y, ok := b.(*ssa.ChangeType)
		return ok && sameExpr(x.X, y.X, d+1)
	case *ssa.MakeInterface:
		y, ok := b.(*ssa.MakeInterface)
		return ok && sameExpr(x.X, y.X, d+1)
	case *ssa.UnOp:
		y, ok := b.(*ssa.UnOp)
		return ok && x.Op == y.Op && sameExpr(x.X, y.X, d+1)
	case *ssa.FieldAddr:
		y, ok := b.(*ssa.FieldAddr)
		return ok && x.Field == y.Field && sameExpr(x.X, y.X, d+1)
	case *ssa.IndexAddr:
		y, ok := b.(*ssa.IndexAddr)
		return ok && sameExpr(x.X, y.X, d+1) && sameExpr(x.Index, y.Index, d+1)
	case *ssa.Const:
		y, ok := b.(*ssa.Const)
		return ok && x.Value != nil && y.Value != nil && x.Value.ExactString() == y.Value.ExactString() && types.Identical(x.Type(), y.Type())
	case *ssa.Phi:
		// the same variable at the same program point
		return false
	}
	return false
}

func recvName(fd *ast.FuncDecl) string {
	if fd.Recv == nil || len(fd.Recv.List) == 0 {
		return "func"
	}
	return types.ExprString(fd.Recv.List[0].Type)
}
