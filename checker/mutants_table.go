package main

// mutantTable: seeded in-memory defects used by the thorough tier to validate the checker.
// Each still type-checks and breaks exactly one rule instance.
var mutantTable = []Mutant{
	{ID: "M13a", Property: "C13", Rule: "C13.R2", File: "index/directory_fs.go",
		Old: "\terr = f.File().Truncate(0)\n\tif err != nil {\n\t\tcleanup()\n\t\treturn err\n\t}\n", New: "",
		Marker: "FileSystemDirectory", Why: "truncation removed: stale tail of a longer file survives"},
	{ID: "M13b", Property: "C13", Rule: "C13.R1", File: "index/directory_fs.go",
		Old: "err = f.File().Sync()", New: "err = nil",
		Marker: "FileSystemDirectory", Why: "fsync dropped before success is reported"},
	{ID: "M13c", Property: "C13", Rule: "C13.R1", File: "index/directory_fs.go",
		Old: "\t\t_ = f.Close()\n\t\t_ = os.Remove(path)\n\t}", New: "\t\t_ = f.Close()\n\t}",
		Marker: "FileSystemDirectory", Why: "partial file left behind on failure"},
	{ID: "M13d", Property: "C13", Rule: "C13.R1", File: "index/directory_mem.go",
		Old: "\t\t_, err := w.WriteTo(&buf, closeCh)\n\t\tif err != nil {\n\t\t\treturn err\n\t\t}\n\t\td.segments[id] = &buf",
		New: "\t\td.segments[id] = &buf\n\t\t_, err := w.WriteTo(&buf, closeCh)\n\t\tif err != nil {\n\t\t\treturn err\n\t\t}",
		Marker: "InMemoryDirectory", Why: "buffer installed before the write succeeded"},
	{ID: "M13e", Property: "C13", Rule: "C13.R1", File: "index/directory_fs.go",
		Old: "\terr = f.File().Sync()\n\tif err != nil {\n\t\tcleanup()\n\t\treturn err\n\t}\n\n\terr = f.Close()\n\tif err != nil {\n\t\tcleanup()\n\t\treturn err\n\t}\n",
		New: "\terr = f.Close()\n\tif err != nil {\n\t\tcleanup()\n\t\treturn err\n\t}\n\t_ = f.File().Sync()\n",
		Marker: "FileSystemDirectory", Why: "close before sync, sync result ignored"},
}
