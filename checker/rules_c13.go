package main

import (
	"fmt"
	"go/constant"
	"go/types"

	"golang.org/x/tools/go/ssa"
)

func init() {
	registerProperty(&PropertyInfo{
		ID:         "C13",
		Title:      "The file-system directory reports success only for durable, exact files",
		Rules:      []string{"C13.R1", "C13.R2", "C13.R3", "C13.R4", "C04.R6", "C13.R5"},
		Decides:    "for every implementation of index.Directory.Persist in the repository, on EVERY control-flow path: a nil return is preceded, in this order and each on the success edge of the previous step, by open -> WriterTo.WriteTo -> File.Sync -> Close, with no write after the Sync; every non-nil return after a successful open has closed the handle and removed the name; the file is empty when WriteTo starts (O_TRUNC/O_EXCL in the folded open flags or a successful Truncate(0) before WriteTo); the in-memory directory installs the buffer only after WriteTo succeeded. unlink/rename sites of the whole module are confined to holders of the file's exclusive lock (the lock helper never unlinks). Persist creates or renames files only under filepath.Join(dir, fileName(kind,id)); buffers of the in-memory directory are written only before installation. No function reachable from a Persist implementation inside the module starts a goroutine (C13.R5): nothing can touch the item after success was reported.",
		NotCovered: "what the operating system does below open/fsync/close/unlink; that WriteTo writes the intended bytes; directory-entry durability (Directory.Sync has no call site and the property does not ask for it).",
	})
	registerRule(&RuleInfo{ID: "C13.R1", Title: "Persist: open -> WriteTo -> Sync -> Close on every success path; close+remove on every failure path", Floor: 2, Run: ruleC13R1,
		Covers: "path-sensitive typestate over all paths of every Directory.Persist implementation"})
	registerRule(&RuleInfo{ID: "C13.R2", Title: "Persist: the file is empty when WriteTo starts (truncation)", Floor: 1, Run: ruleC13R2,
		Covers: "folded open flags / dominating Truncate(0) on every path to WriteTo"})
}

// event bits of the persist typestate
const (
	pfOpened uint64 = 1 << iota
	pfTruncated
	pfWrote
	pfSynced
	pfClosedOK
	pfCloseAttempted
	pfRemoved
	pfBadSyncBeforeWrite
	pfBadWriteAfterSync
	pfBadCloseBeforeSync
	pfWriteUntruncated
	pfWriteFailed
	pfInstalled
	pfBadInstall
)

// directoryImpls returns the concrete Persist implementations of index.Directory declared in bluge.
func directoryMethodImpls(p *Program, method string) []*ssa.Function {
	dirIface := p.Iface(pkgIndex, "Directory")
	var rv []*ssa.Function
	seen := map[*ssa.Function]bool{}
	for path, pk := range p.All {
		if len(path) < len(modPath) || path[:len(modPath)] != modPath {
			continue
		}
		sc := pk.Types.Scope()
		for _, name := range sc.Names() {
			tn, ok := sc.Lookup(name).(*types.TypeName)
			if !ok || tn.IsAlias() {
				continue
			}
			if _, isIface := tn.Type().Underlying().(*types.Interface); isIface {
				continue
			}
			for _, t := range []types.Type{types.NewPointer(tn.Type()), tn.Type()} {
				if !types.Implements(t, dirIface) {
					continue
				}
				sel := p.SSA.MethodSets.MethodSet(t).Lookup(tn.Pkg(), method)
				if sel == nil {
					continue
				}
				fn := p.SSA.MethodValue(sel)
				if fn != nil && fn.Blocks != nil && fn.Synthetic == "" && !seen[fn] {
					seen[fn] = true
					rv = append(rv, fn)
				}
				break
			}
		}
	}
	sortFuncs(p, rv)
	return rv
}

func sortFuncs(p *Program, fs []*ssa.Function) {
	for i := 1; i < len(fs); i++ {
		for j := i; j > 0 && FuncName(fs[j]) < FuncName(fs[j-1]); j-- {
			fs[j], fs[j-1] = fs[j-1], fs[j]
		}
	}
}

type persistModel struct {
	p          *Program
	lockedFile *types.Named
	writeTo    *types.Func
	lfClose    *types.Func
	oTruncExcl int64
	oTrunc     int64
	oExcl      int64
	// an open that truncates an existing file before the lock is held was seen
	truncBeforeLock bool
	// sites seen
	opens, writes int
}

func newPersistModel(p *Program) *persistModel {
	m := &persistModel{p: p}
	m.lockedFile = p.Named(pkgIndex+"/lock", "LockedFile")
	m.writeTo = p.IfaceMethod(pkgIndex, "WriterTo", "WriteTo")
	m.lfClose = p.IfaceMethod(pkgIndex+"/lock", "LockedFile", "Close")
	for _, n := range []string{"O_TRUNC", "O_EXCL"} {
		c, ok := p.Obj("os", n).(*types.Const)
		if !ok {
			panic(unresolvedAnchor{"os." + n})
		}
		v, _ := constant.Int64Val(c.Val())
		m.oTruncExcl |= v
		if n == "O_TRUNC" {
			m.oTrunc = v
		} else {
			m.oExcl = v
		}
	}
	return m
}

func (m *persistModel) isOpen(call ssa.CallInstruction) bool {
	rs := call.Common().Signature().Results()
	if rs.Len() != 2 || !isErrorType(rs.At(1).Type()) {
		return false
	}
	n, _ := rs.At(0).Type().(*types.Named)
	return n != nil && n.Obj() == m.lockedFile.Obj()
}

func isOSFileMethod(cc *ssa.CallCommon, name string) bool {
	f := staticCallee(cc)
	return f != nil && isFuncNamed(f, "os", "File."+name)
}

// outcomes models the persist-relevant primitive sites.
func (m *persistModel) outcomes(call ssa.CallInstruction, st *PState) []Outcome {
	cc := call.Common()
	switch {
	case m.isOpen(call):
		m.opens++
		ok := Outcome{Results: []Tri{TriYes, TriNo}, Flags: pfOpened}
		for _, a := range cc.Args {
			if v, isInt := constInt(a); isInt && types.Identical(a.Type(), types.Typ[types.Int]) && v&m.oTruncExcl != 0 {
				ok.Flags |= pfTruncated
				if v&m.oTrunc != 0 && v&m.oExcl == 0 {
					// os.OpenFile truncates first, the exclusive flock is taken afterwards
					m.truncBeforeLock = true
				}
			}
		}
		return []Outcome{ok, {Results: []Tri{TriUnknown, TriYes}}}
	case callsIfaceMethod(cc, m.writeTo):
		m.writes++
		var f uint64 = pfWrote
		if st.Flags&pfSynced != 0 {
			f |= pfBadWriteAfterSync
		}
		if st.Flags&pfOpened != 0 && st.Flags&pfTruncated == 0 {
			f |= pfWriteUntruncated
		}
		return []Outcome{{Results: []Tri{TriUnknown, TriNo}, Flags: f}, {Results: []Tri{TriUnknown, TriYes}, Flags: f&^pfWrote | pfWriteFailed}}
	case isOSFileMethod(cc, "Truncate"):
		if v, ok := constInt(cc.Args[len(cc.Args)-1]); ok && v == 0 {
			return []Outcome{{Results: []Tri{TriNo}, Flags: pfTruncated}, {Results: []Tri{TriYes}}}
		}
	case isOSFileMethod(cc, "Write"), isOSFileMethod(cc, "WriteString"), isOSFileMethod(cc, "WriteAt"), isOSFileMethod(cc, "ReadFrom"):
		var f uint64
		if st.Flags&pfSynced != 0 {
			f |= pfBadWriteAfterSync
		}
		return []Outcome{{Flags: f}}
	case isOSFileMethod(cc, "Sync"):
		var f uint64 = pfSynced
		if st.Flags&pfWrote == 0 {
			f |= pfBadSyncBeforeWrite
		}
		return []Outcome{{Results: []Tri{TriNo}, Flags: f}, {Results: []Tri{TriYes}}}
	case callsIfaceMethod(cc, m.lfClose), isOSFileMethod(cc, "Close"):
		var f uint64 = pfClosedOK | pfCloseAttempted
		if st.Flags&pfSynced == 0 {
			f |= pfBadCloseBeforeSync
		}
		return []Outcome{{Results: []Tri{TriNo}, Flags: f}, {Results: []Tri{TriYes}, Flags: pfCloseAttempted}}
	case isPkgFunc(cc, "os", "Remove"), isPkgFunc(cc, "os", "RemoveAll"):
		return []Outcome{{Flags: pfRemoved}}
	}
	return nil
}

func flagNames(f uint64) string {
	names := []string{"opened", "truncated", "wrote", "synced", "closed-ok", "close-attempted", "removed", "SYNC-BEFORE-WRITE", "WRITE-AFTER-SYNC", "close-before-sync", "WRITE-UNTRUNCATED", "write-failed", "installed", "INSTALL-WITHOUT-WRITE"}
	s := ""
	for i, n := range names {
		if f&(1<<uint(i)) != 0 {
			if s != "" {
				s += ","
			}
			s += n
		}
	}
	if s == "" {
		s = "-"
	}
	return s
}

// explorePersist returns the abstract return outcomes of a Persist implementation.
func (m *persistModel) explore(fn *ssa.Function) ([]RetOutcome, bool) {
	s := &Summarizer{SiteOutcomes: m.outcomes, InlineDefers: true}
	s.OnInstr = func(f *ssa.Function, in ssa.Instruction, st *PState) bool {
		// the in-memory idiom: installing the buffer into a map field
		if mu, ok := in.(*ssa.MapUpdate); ok {
			if fv, _ := loadedField(mu.Map); fv != nil {
				st.Flags |= pfInstalled
				if st.Flags&pfWrote == 0 {
					st.Flags |= pfBadInstall
				}
			}
		}
		return true
	}
	outs := s.Summary(fn)
	return outs, s.Exceeded
}

func ruleC13R1(c *Ctx) {
	m := newPersistModel(c.Program)
	impls := directoryMethodImpls(c.Program, "Persist")
	for _, fn := range impls {
		name := FuncName(fn)
		pos := c.Pos(fn.Pos())
		m.opens, m.writes = 0, 0
		outs, exceeded := m.explore(fn)
		if exceeded || len(outs) == 0 {
			c.Undecided("Persist paths of "+name, pos, "path exploration did not finish")
			continue
		}
		fileBased := m.opens > 0
		errIdx := fnErrIdx(fn)
		var bad []string
		nOK, nFail := 0, 0
		anyInstall := false
		for _, o := range outs {
			et := TriUnknown
			if errIdx >= 0 && errIdx < len(o.Results) {
				et = o.Results[errIdx]
			}
			f := o.Flags
			if f&pfInstalled != 0 {
				anyInstall = true
			}
			if f&pfBadInstall != 0 {
				bad = append(bad, "a path installs the item without a successful WriteTo ["+flagNames(f)+"]")
			}
			if !fileBased {
				continue
			}
			if et != TriYes { // success (or possibly-nil) return
				nOK++
				need := pfOpened | pfWrote | pfSynced | pfClosedOK
				if f&need != need {
					bad = append(bad, fmt.Sprintf("a path returns a possibly-nil error without open->WriteTo->Sync->Close all succeeding [%s]", flagNames(f)))
				}
				if f&(pfBadSyncBeforeWrite|pfBadWriteAfterSync|pfBadCloseBeforeSync) != 0 {
					bad = append(bad, fmt.Sprintf("a success path has the steps out of order [%s]", flagNames(f)))
				}
			} else if f&pfOpened != 0 {
				nFail++
				if f&pfCloseAttempted == 0 || f&pfRemoved == 0 {
					bad = append(bad, fmt.Sprintf("a failure path after a successful open does not close the handle and remove the name [%s]", flagNames(f)))
				}
				if f&pfBadWriteAfterSync != 0 {
					bad = append(bad, "write after Sync")
				}
			}
		}
		if fileBased {
			if nOK == 0 {
				bad = append(bad, "no success path found")
			}
			c.Check(len(bad) == 0, "Persist typestate of "+name, pos,
				fmt.Sprintf("%d abstract return outcomes: %d success (all open->WriteTo->Sync->Close in order), %d failure-after-open (all close+remove)", len(outs), nOK, nFail),
				uniqJoin(bad))
		} else if anyInstall || m.writes > 0 {
			c.Check(len(bad) == 0, "Persist install-after-write of "+name, pos,
				fmt.Sprintf("%d abstract return outcomes; the item is installed only after WriteTo succeeded", len(outs)), uniqJoin(bad))
		} else {
			c.Undecided("Persist of "+name, pos, "neither a file-based nor a buffer-installing implementation: idiom unknown to the rule")
		}
	}
}

func ruleC13R2(c *Ctx) {
	m := newPersistModel(c.Program)
	for _, fn := range directoryMethodImpls(c.Program, "Persist") {
		m.opens = 0
		m.truncBeforeLock = false
		outs, exceeded := m.explore(fn)
		if m.opens == 0 {
			continue
		}
		name := FuncName(fn)
		c.Check(!m.truncBeforeLock, "no truncation before the exclusive lock in "+name, c.Pos(fn.Pos()), "an existing file is emptied only after the exclusive lock on it is held (Truncate on the locked file) or cannot exist (O_EXCL)",
			"the file is opened with O_TRUNC (without O_EXCL): the open truncates an existing file BEFORE the exclusive lock is acquired, so a Persist that then fails on the lock (an open Reader holds the item) has already destroyed the item and leaves an empty file under its name")
		if exceeded {
			c.Undecided("truncation before WriteTo in "+name, c.Pos(fn.Pos()), "path exploration did not finish")
			continue
		}
		bad := false
		for _, o := range outs {
			if o.Flags&pfWriteUntruncated != 0 {
				bad = true
			}
		}
		c.Check(!bad, "truncation before WriteTo in "+name, c.Pos(fn.Pos()),
			"every path reaching WriteTo has O_TRUNC/O_EXCL in the open flags or passed a successful Truncate(0)",
			"a path reaches WriteTo on a file opened without O_TRUNC/O_EXCL and without a preceding successful Truncate(0): persisting over a longer file of the same name leaves its stale tail")
	}
}

func uniqJoin(ss []string) string {
	seen := map[string]bool{}
	out := ""
	for _, s := range ss {
		if seen[s] {
			continue
		}
		seen[s] = true
		if out != "" {
			out += "; "
		}
		out += s
	}
	return out
}
