package main

import (
	"fmt"
	"go/token"
	"go/types"
	"strings"

	"golang.org/x/tools/go/ssa"
)

func init() {
	registerProperty(&PropertyInfo{
		ID:    "C07",
		Title: "Every query returns exactly the documents its meaning selects",
		Rules: []string{"C07.R1", "C07.R2", "C07.R3", "C07.R4", "C07.R5", "C07.R6", "C07.R7", "C07.R8", "C07.R9", "C04.R7", "C08.R6", "C06.R5"},
		Decides: "two structural conditions every correct searcher stack needs (narrow claim): after a DocumentMatch was handed back to the pool, no path uses the same access path or value again (dereference, argument, return, store) before it is overwritten - comparisons with nil or another pointer are not uses; the index-level postings iterators that span several segments return every non-nil posting with its number globalised by the snapshot's offset of the segment it came from, on the Next path and on the Advance path alike; the offsets themselves are cumulative full segment sizes (C06.R5). no loop runs over a cursor list that was emptied on every path to it (pending children are not dropped); a regexp's literal prefix is read only from case-sensitive literal nodes. a searcher wrapping one child reports exhaustion only when the child is exhausted; a heap element changed in place is re-sifted (C08.R6).",
		NotCovered: "equality of the result set with the query's meaning: conjunction/disjunction/boolean/phrase iterator logic, term expansion, geo arithmetic; aliases of a recycled match held under a different access path.",
	})
	registerRule(&RuleInfo{ID: "C07.R1", Title: "a recycled match is never referenced again", Floor: 15, Run: ruleC07R1,
		Covers: "every DocumentMatchPool.Put call in search/..."})
	registerRule(&RuleInfo{ID: "C07.R3", Title: "heaps are only modified through container/heap", Floor: 1, Run: ruleC07R3,
		Covers: "every call of Push/Pop on a type implementing heap.Interface"})
	registerRule(&RuleInfo{ID: "C07.R4", Title: "a cursor is advanced to a target only when it is strictly behind it", Floor: 4, Run: ruleC07R4,
		Covers: "every guarded child.Advance(ctx, target) in the searchers"})
	registerRule(&RuleInfo{ID: "C07.R2", Title: "doc numbers leave the index layer globalised", Floor: 2, Run: ruleC07R2,
		Covers: "Next/Advance of every multi-segment PostingsIterator in package index"})
}

func isCompareOnly(r ssa.Instruction) bool {
	switch x := r.(type) {
	case *ssa.BinOp:
		return x.Op == token.EQL || x.Op == token.NEQ
	case *ssa.DebugRef:
		return true
	}
	return false
}

func ruleC07R1(c *Ctx) {
	poolPut := c.Method(pkgSearch, "DocumentMatchPool", "Put")
	n := 0
	for _, fn := range c.SrcFuncs() {
		if !strings.HasPrefix(funcPkgPath(fn), pkgSearch) || fn == poolPut {
			continue
		}
		eachInstr(fn, func(in ssa.Instruction) {
			call, ok := in.(*ssa.Call)
			if !ok || call.Common().StaticCallee() != poolPut {
				return
			}
			n++
			key := fmt.Sprintf("Put #%d in %s", n, FuncName(fn))
			arg := call.Common().Args[1]
			pathA := ""
			if u, isL := isLoad(arg); isL {
				pathA = accessPath(u.X)
			}
			var problems []string
			useOf := func(at ssa.Instruction, v ssa.Value) bool {
				for _, op := range at.Operands(nil) {
					if *op == v {
						return true
					}
				}
				return false
			}
			ex := &Explorer{Fn: fn}
			ex.OnInstr = func(at ssa.Instruction, st *PState) bool {
				if at == ssa.Instruction(call) {
					return false // next round
				}
				if av, isInstr := arg.(ssa.Instruction); isInstr && at == av {
					return false // the recycled variable is re-read in a new loop round
				}
				if sto, isSt := at.(*ssa.Store); isSt && pathA != "" && accessPath(sto.Addr) == pathA {
					return false // overwritten
				}
				if _, isPhi := at.(*ssa.Phi); isPhi {
					return true
				}
				if useOf(at, arg) && !isCompareOnly(at) {
					problems = append(problems, "the recycled match is used at "+c.Pos(at.Pos())+" after it was returned to the pool")
					return false
				}
				if u, isL := at.(*ssa.UnOp); isL && u.Op == token.MUL && pathA != "" && accessPath(u.X) == pathA && u.Referrers() != nil {
					for _, r := range *u.Referrers() {
						if !isCompareOnly(r) {
							if _, isPhi := r.(*ssa.Phi); isPhi {
								continue
							}
							problems = append(problems, "the field/element holding the recycled match is read at "+c.Pos(at.Pos())+" and used (not merely compared) before it is overwritten")
							return false
						}
					}
				}
				return true
			}
			ex.RunAfter(call, newPState())
			if ex.Exceeded {
				c.Undecided(key, c.Pos(in.Pos()), "path exploration did not finish")
				return
			}
			c.Check(len(problems) == 0, key, c.Pos(in.Pos()), "no path uses the recycled match (by value or by its access path) before it is overwritten", uniqJoin(problems))
		})
	}
}

func ruleC07R2(c *Ctx) {
	a := c.Idx()
	pit := c.Iface("github.com/blugelabs/bluge_segment_api", "PostingsIterator")
	for _, n := range namedTypesImplementing(c, pit) {
		if n.Obj().Pkg().Path() != pkgIndex {
			continue
		}
		st, ok := n.Underlying().(*types.Struct)
		if !ok {
			continue
		}
		multi := false
		for i := 0; i < st.NumFields(); i++ {
			if namedOf(st.Field(i).Type()) == a.Snapshot {
				multi = true
			}
		}
		if !multi {
			continue
		}
		for _, mname := range []string{"Next", "Advance"} {
			fn := methodOfNamed(c, n, mname)
			if fn == nil {
				continue
			}
			key := fmt.Sprintf("%s.%s returns globalised doc numbers", n.Obj().Name(), mname)
			const fGlobal uint64 = 1
			fromOffsets := func(v ssa.Value) bool {
				// not through calls: the target handed to a per-segment Advance is itself computed
				// from the offsets, which says nothing about the number that comes back
				return dependsOnStop(v, func(y ssa.Value) bool {
					ia, ok := y.(*ssa.IndexAddr)
					if !ok {
						return false
					}
					f, _ := loadedField(ia.X)
					return f == a.SnapOffsets
				}, func(y ssa.Value) bool {
					_, isCall := y.(*ssa.Call)
					return isCall
				})
			}
			var problems []string
			// helpers of the same iterator type are followed (a shared "set current posting" method)
			sm := &Summarizer{}
			sm.Follow = func(f *ssa.Function) bool {
				return methodRecvNamed(f) == n && f.Name() != "Next" && f.Name() != "Advance"
			}
			sm.OnInstr = func(_ *ssa.Function, in ssa.Instruction, st *PState) bool {
				switch x := in.(type) {
				case *ssa.Call:
					cc := x.Common()
					if cc.IsInvoke() && cc.Method.Name() == "SetNumber" && len(cc.Args) == 1 {
						if fromOffsets(cc.Args[0]) {
							st.Flags |= fGlobal
						} else {
							st.Flags &^= fGlobal
						}
					}
					// a fresh posting fetched from a per-segment iterator is local again
					if cc.IsInvoke() && (cc.Method.Name() == "Next" || cc.Method.Name() == "Advance") && cc.Signature().Results().Len() == 2 {
						st.Flags &^= fGlobal
					}
				case *ssa.Store:
					if fa, ok := x.Addr.(*ssa.FieldAddr); ok && fieldVar(fa).Name() == "number" {
						if fromOffsets(x.Val) {
							st.Flags |= fGlobal
						} else {
							st.Flags &^= fGlobal
						}
					}
				}
				return true
			}
			ex := sm.Explorer(fn)
			ex.OnReturn = func(r *ssa.Return, st *PState) {
				if len(r.Results) != 2 || st.Eval(r.Results[0]) == TriNo || isNilConst(r.Results[0]) {
					return
				}
				if st.Eval(r.Results[1]) == TriYes {
					return
				}
				// tail call into the sibling method
				if ext, ok := st.Canon(r.Results[0]).(*ssa.Extract); ok {
					if call, ok := ext.Tuple.(*ssa.Call); ok && call.Common().StaticCallee() != nil {
						callee := call.Common().StaticCallee()
						if (callee.Name() == "Next" || callee.Name() == "Advance") && methodRecvNamed(callee) == n {
							return
						}
					}
				}
				if st.Flags&fGlobal == 0 {
					problems = append(problems, "a posting is returned at "+c.Pos(r.Pos())+" whose number was not set from snapshot.offsets[segment] + local number")
				}
			}
			ex.Run()
			if ex.Exceeded || sm.Exceeded {
				c.Undecided(key, c.Pos(fn.Pos()), "path exploration did not finish")
				continue
			}
			c.Check(len(problems) == 0, key, c.Pos(fn.Pos()), "every non-nil posting returned (other than by delegating to the sibling method) had its number set from the segment's offset", uniqJoin(problems))
		}
	}
}

// ruleC07R3: Push/Pop of a heap.Interface implementation append/cut without restoring the heap
// order; they must only be reached through container/heap.
func ruleC07R3(c *Ctx) {
	hi := c.Iface("container/heap", "Interface")
	n := 0
	for _, fn := range c.SrcFuncs() {
		eachInstr(fn, func(in ssa.Instruction) {
			call, ok := in.(*ssa.Call)
			if !ok || call.Common().StaticCallee() == nil {
				return
			}
			callee := call.Common().StaticCallee()
			if callee.Signature.Recv() == nil || callee.Name() != "Push" && callee.Name() != "Pop" {
				return
			}
			rt := callee.Signature.Recv().Type()
			if !types.Implements(rt, hi) && !types.Implements(types.NewPointer(rt), hi) {
				return
			}
			n++
			c.Violate(fmt.Sprintf("direct %s call #%d on a heap in %s", callee.Name(), n, FuncName(fn)), c.Pos(in.Pos()),
				"the heap.Interface method "+callee.Name()+" is called directly instead of container/heap."+callee.Name()+": the element is appended/removed without sifting, the heap order is broken and the smallest document is no longer on top (documents are skipped)")
		})
	}
	// count the legitimate uses so that the rule is not vacuous
	m := 0
	for _, fn := range c.SrcFuncs() {
		eachInstr(fn, func(in ssa.Instruction) {
			if cc := callOf(in); cc != nil && (isPkgFunc(cc, "container/heap", "Push") || isPkgFunc(cc, "container/heap", "Pop")) {
				m++
				c.OK(fmt.Sprintf("container/heap use #%d in %s", m, FuncName(fn)), c.Pos(in.Pos()), "through container/heap")
			}
		})
	}
}

// ruleC07R4: Advance(target) on a child that already sits on the target moves it past the target.
func ruleC07R4(c *Ctx) {
	dm := c.Named(pkgSearch, "DocumentMatch")
	fNumber := c.Field(pkgSearch, "DocumentMatch", "Number")
	n := 0
	for _, fn := range c.FuncsIn(pkgSearcher) {
		var calls []*ssa.Call
		eachInstr(fn, func(in ssa.Instruction) {
			call, ok := in.(*ssa.Call)
			if !ok || !call.Common().IsInvoke() || call.Common().Method.Name() != "Advance" || len(call.Common().Args) != 2 {
				return
			}
			if _, isParam := call.Common().Args[1].(*ssa.Parameter); isParam {
				calls = append(calls, call)
			}
		})
		if len(calls) == 0 {
			continue
		}
		isNum := func(v ssa.Value) bool {
			f, base := loadedField(v)
			return f == fNumber && namedOf(base.Type()) == dm
		}
		for _, call := range calls {
			target := call.Common().Args[1]
			// comparisons of a match's Number with the target
			type cand struct {
				v  ssa.Value
				op token.Token
			}
			var cands []cand
			eachInstr(fn, func(x ssa.Instruction) {
				b, ok := x.(*ssa.BinOp)
				if !ok {
					return
				}
				switch {
				case isNum(b.X) && b.Y == target:
					cands = append(cands, cand{b, b.Op})
				case isNum(b.Y) && b.X == target:
					flip := map[token.Token]token.Token{token.LSS: token.GTR, token.GTR: token.LSS, token.LEQ: token.GEQ, token.GEQ: token.LEQ}
					cands = append(cands, cand{b, flip[b.Op]})
				default:
					cmpCall, isCall := b.X.(*ssa.Call)
					k, isC := constInt(b.Y)
					if isCall && isC && k == 0 && len(cmpCall.Common().Args) == 2 && cmpCall.Common().StaticCallee() != nil && isNum(cmpCall.Common().Args[0]) && cmpCall.Common().Args[1] == target {
						cands = append(cands, cand{b, b.Op})
					}
				}
			})
			var rel []cand
			for _, cd := range cands {
				if cd.op == token.LSS || cd.op == token.LEQ || cd.op == token.GTR || cd.op == token.GEQ {
					rel = append(rel, cd)
				}
			}
			if len(rel) == 0 {
				continue
			}
			n++
			key := fmt.Sprintf("guarded Advance #%d in %s", n, FuncName(fn))
			var problems []string
			ex := &Explorer{Fn: fn, Keep: map[ssa.Value]bool{}}
			for _, cd := range rel {
				ex.Keep[cd.v] = true
			}
			ex.OnInstr = func(in ssa.Instruction, st *PState) bool {
				if in != ssa.Instruction(call) {
					return true
				}
				for _, cd := range rel {
					t := st.Eval(cd.v)
					if t == TriUnknown {
						continue
					}
					e := cd.op
					if t == TriNo {
						neg := map[token.Token]token.Token{token.LSS: token.GEQ, token.GEQ: token.LSS, token.GTR: token.LEQ, token.LEQ: token.GTR}
						e = neg[cd.op]
					}
					if e != token.LSS {
						problems = append(problems, fmt.Sprintf("on a path the child is advanced although all that is known is cursor.Number %s target (comparison at %s)", e, c.Pos(cd.v.Pos())))
					}
				}
				return true
			}
			ex.OnEdge = func(from, to *ssa.BasicBlock, st *PState) {
				if to.Dominates(from) { // a new loop round compares a new cursor
					for _, cd := range rel {
						st.Forget(cd.v)
					}
				}
			}
			ex.Run()
			if ex.Exceeded {
				c.Undecided(key, c.Pos(call.Pos()), "path exploration did not finish")
				continue
			}
			c.Check(len(problems) == 0, key, c.Pos(call.Pos()), "the child is advanced only on paths where cursor.Number < target (or the cursor is unset)",
				"a child searcher is advanced to the target although its cursor may already sit ON (or beyond) the target: it moves past it and the document is wrongly (not) matched; "+uniqJoin(problems))
		}
	}
}
