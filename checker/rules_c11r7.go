package main

import (
	"fmt"

	"golang.org/x/tools/go/ssa"
)

// C11.R7: hand-back of a skipped merge. A merger sends its freshly loaded merged segment to
// the introducer inside a segmentMerge and waits for the status. When the introducer reports
// `skipped` it did not list the segment anywhere, so nobody but the sender can release the
// handle: every sender must release the wrapper it sent on the edge where the received
// status says skipped. (The send itself is an ownership transfer for C11.R4, which is why
// this sibling rule exists.)

func init() {
	registerRule(&RuleInfo{ID: "C11.R7", Title: "the sender of a merge releases the merged segment when its introduction was skipped", Floor: 2, Run: ruleC11R7,
		Covers: "every function that builds a segmentMerge around a loaded wrapper and sends it to the introducer"})
}

func ruleC11R7(c *Ctx) {
	a := c.Idx()
	fNew := c.Field(pkgIndex, "segmentMerge", "new")
	fSkipped := c.Field(pkgIndex, "mergeTaskIntroStatus", "skipped")
	n := 0
	for _, fn := range c.FuncsIn(pkgIndex) {
		eachInstr(fn, func(in ssa.Instruction) {
			al, ok := in.(*ssa.Alloc)
			if !ok || al.Comment != "complit" || namedOf(al.Type()) != a.SegMerge {
				return
			}
			stores := fieldStoresOfLiteral(al, fNew)
			if len(stores) != 1 {
				return
			}
			sent := stores[0].Val
			// is the literal sent on a channel in this function?
			isSent := false
			eachInstr(fn, func(g ssa.Instruction) {
				switch x := g.(type) {
				case *ssa.Send:
					if x.X == ssa.Value(al) || isLoadOfCellHolding(x.X, al) {
						isSent = true
					}
				case *ssa.Select:
					for _, stt := range x.States {
						if stt.Send != nil && (stt.Send == ssa.Value(al) || isLoadOfCellHolding(stt.Send, al)) {
							isSent = true
						}
					}
				}
			})
			if !isSent {
				return
			}
			n++
			key := fmt.Sprintf("merge sender #%d in %s releases the segment of a skipped introduction", n, FuncName(fn))
			isSentVal := func(y ssa.Value) bool { return y == sent || sameBase(y, sent) }
			found := false
			eachInstr(fn, func(g ssa.Instruction) {
				iff, ok := g.(*ssa.If)
				if !ok {
					return
				}
				f, _ := loadedField(iff.Cond)
				if f != fSkipped {
					return
				}
				eachInstr(fn, func(h ssa.Instruction) {
					cc := callOf(h)
					if cc == nil {
						return
					}
					if _, isCall := h.(*ssa.Call); !isCall {
						return
					}
					if recv, ok := isReleaseCall(cc); ok && (isSentVal(recv) || dependsOn(recv, isSentVal)) && edgeDominates(iff, 0, h.Block()) {
						found = true
					}
				})
			})
			c.Check(found, key, c.Pos(al.Pos()), "on the edge where the received status says skipped, the wrapper that was sent is closed",
				"the merged segment handed to the introducer is not released when the introduction is skipped: nobody owns the handle any more (the file stays open and locked until the process exits)")
		})
	}
}
