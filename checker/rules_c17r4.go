package main

import (
	"fmt"
	"go/types"

	"golang.org/x/tools/go/ssa"
)

// C17.R4: an explanation owns its children. The list of children given to an Explanation
// (NewExplanation(..., children...) or a store to Explanation.Children) must not share its
// backing array with a field of a longer-lived object (a buffer kept on the scorer or
// searcher "to save allocations"): the explanation of the next hit would overwrite the
// children of an explanation already handed out, whose value then no longer derives from
// its children.

func init() {
	registerRule(&RuleInfo{ID: "C17.R4", Title: "the children list of an explanation is not a reused buffer", Floor: 10, Run: ruleC17R4,
		Covers: "every call of search.NewExplanation and every store to Explanation.Children in the module"})
}

// backingFromField: the slice v may share its backing array with a slice-typed field
// (followed through re-slicing, append's first operand, phis and local cells only).
func backingFromField(v ssa.Value, seen map[ssa.Value]bool) *types.Var {
	if v == nil || seen[v] {
		return nil
	}
	seen[v] = true
	switch x := v.(type) {
	case *ssa.Slice:
		return backingFromField(x.X, seen)
	case *ssa.Phi:
		for _, e := range x.Edges {
			if f := backingFromField(e, seen); f != nil {
				return f
			}
		}
	case *ssa.Call:
		if builtinName(x.Common()) == "append" {
			return backingFromField(x.Common().Args[0], seen)
		}
	case *ssa.ChangeType:
		return backingFromField(x.X, seen)
	case *ssa.UnOp:
		if u, ok := isLoad(x); ok {
			switch a := u.X.(type) {
			case *ssa.FieldAddr:
				if _, isSlice := u.Type().Underlying().(*types.Slice); isSlice {
					// fields of an object allocated in this function are not long-lived
					if al, isAl := addrRoot(a).(*ssa.Alloc); isAl && al.Comment == "complit" {
						return nil
					}
					return fieldVar(a)
				}
			case *ssa.Global:
				if _, isSlice := u.Type().Underlying().(*types.Slice); isSlice {
					if gv, ok := a.Object().(*types.Var); ok {
						return gv
					}
				}
			case *ssa.Alloc:
				if a.Referrers() != nil {
					for _, r := range *a.Referrers() {
						if st, ok := r.(*ssa.Store); ok && st.Addr == a {
							if f := backingFromField(st.Val, seen); f != nil {
								return f
							}
						}
					}
				}
			}
		}
	}
	return nil
}

func ruleC17R4(c *Ctx) {
	newExp := c.Func(pkgSearch, "NewExplanation")
	fChildren := c.Field(pkgSearch, "Explanation", "Children")
	n := 0
	for _, fn := range c.SrcFuncs() {
		if fn == newExp {
			continue
		}
		eachInstr(fn, func(in ssa.Instruction) {
			var list ssa.Value
			switch x := in.(type) {
			case *ssa.Call:
				if x.Common().StaticCallee() == newExp && len(x.Common().Args) == 3 {
					list = x.Common().Args[2]
				}
			case *ssa.Store:
				if fa, ok := x.Addr.(*ssa.FieldAddr); ok && fieldVar(fa) == fChildren {
					list = x.Val
				}
			}
			if list == nil {
				return
			}
			n++
			key := fmt.Sprintf("children list #%d in %s is owned by the explanation", n, FuncName(fn))
			f := backingFromField(list, map[ssa.Value]bool{})
			bad := ""
			if f != nil {
				bad = f.Name()
			}
			c.Check(f == nil, key, c.Pos(in.Pos()), "built in this call (literal arguments or a slice grown from nil / make)",
				"the children list shares its backing array with the field / package variable '"+bad+"': producing the next explanation overwrites the children of one already returned (its value no longer equals what its children derive)")
		})
	}
}

// addrRoot strips field/index/deref steps from an address.
func addrRoot(v ssa.Value) ssa.Value {
	for i := 0; i < 20; i++ {
		switch x := v.(type) {
		case *ssa.FieldAddr:
			v = x.X
		case *ssa.IndexAddr:
			v = x.X
		case *ssa.Field:
			v = x.X
		case *ssa.Index:
			v = x.X
		case *ssa.Slice:
			v = x.X
		default:
			return v
		}
	}
	return v
}
