package main

import (
	"fmt"
	"go/token"
	"go/types"
	"strings"

	"golang.org/x/tools/go/ssa"
)

func init() {
	registerProperty(&PropertyInfo{
		ID:    "C03",
		Title: "Crash recovery is atomic, prefix-consistent and repeatable",
		Rules: []string{"C03.R1", "C03.R2", "C03.R3", "C12.R3", "C12.R4", "C01.R2", "C02.R2", "C02.R5", "C13.R2", "C13.R4", "C11.R8", "C03.R4", "C12.R6"},
		Decides: "the shape of the recovery protocol on every path: a snapshot that fails to load sends control back to the loop over the listed snapshots (never out of the open call), open fails only when nothing loaded; with CRC validation on, a snapshot is returned only behind the true edge of bytes.Equal(computed, stored) where the computed sum is that of the hashing reader the decoder actually read through and both ranges are derived from Len()-crcWidth; the default configuration validates; the writer side hashes every byte and writes the sum last; segment ids start above every listed segment file and are only advanced atomically; snapshot epochs handed to introductions are never handed out twice; no mapped byte is used after its unmap and no length read from a file sizes an allocation unchecked (shared with C12); segments precede the snapshot naming them and rewrites truncate (shared with C02/C13). the checksum comparison covers all crcWidth bytes; the stand-in snapshot of an in-memory merge lists only the persisted snapshot's own elements or literals with a nil deleted set (C02.R5, C01.R2). every exported configuration constructor validates snapshot checksums; Persist creates files only under the canonical item name; a failing load hook closes the locked file.",
		NotCovered: "that the recovered CONTENT equals a prefix of the applied batches (runtime sets of documents); what a torn file looks like on a particular file system.",
	})
	registerRule(&RuleInfo{ID: "C03.R1", Title: "unloadable snapshots are skipped, open fails only when nothing loaded", Floor: 2, Run: ruleC03R1,
		Covers: "path-sensitive: failure outcome of the snapshot loader inside each loop over Directory.List(ItemKindSnapshot)"})
	registerRule(&RuleInfo{ID: "C03.R2", Title: "a snapshot is accepted only behind its checksum; the checksum covers all bytes", Floor: 6, Run: ruleC03R2,
		Covers: "must-pass-through the true edge of bytes.Equal on validating paths; provenance of both compared values; writer-side hashing discipline; default config"})
	registerRule(&RuleInfo{ID: "C03.R3", Title: "segment ids and snapshot epochs are never reused after recovery", Floor: 4, Run: ruleC03R3,
		Covers: "who-writes Writer.nextSegmentID; initialisation from the directory listing before any goroutine starts; epoch counter only incremented"})
}

// snapshotLoaders: functions of package index that load a snapshot item from the directory.
func snapshotLoaders(p *Program) []*ssa.Function {
	a := p.Idx()
	var rv []*ssa.Function
	for _, fn := range p.FuncsIn(pkgIndex) {
		found := false
		eachInstr(fn, func(in ssa.Instruction) {
			if cc := callOf(in); cc != nil && a.isDirCall(cc, a.DirLoad, a.KindSnapshot) {
				found = true
			}
		})
		if found {
			rv = append(rv, fn)
		}
	}
	return rv
}

func ruleC03R1(c *Ctx) {
	a := c.Idx()
	loaders := map[*ssa.Function]bool{}
	for _, l := range snapshotLoaders(c.Program) {
		loaders[l] = true
	}
	if len(loaders) == 0 {
		c.Undecided("snapshot loader", "-", "no function loads ItemKindSnapshot from the directory")
		return
	}
	const (
		fFailedNow uint64 = 1 << iota
		fLoadedOK
		fListed
	)
	for _, fn := range c.FuncsIn(pkgIndex) {
		var calls []*ssa.Call
		eachInstr(fn, func(in ssa.Instruction) {
			if ci, ok := in.(*ssa.Call); ok && loaders[ci.Common().StaticCallee()] {
				calls = append(calls, ci)
			}
		})
		if len(calls) == 0 || loaders[fn] {
			continue
		}
		name := FuncName(fn)
		// the loader call must sit in a loop over the listing
		for i, call := range calls {
			key := fmt.Sprintf("snapshot load #%d in %s", i+1, name)
			head := enclosingLoopHeader(call.Block())
			if head == nil {
				c.Violate(key+" is retried over older snapshots", c.Pos(call.Pos()), "the snapshot loader is not called in a loop over the listed snapshots: one damaged snapshot makes open fail")
				continue
			}
			// the epoch argument derives from Directory.List(ItemKindSnapshot)
			fromList := false
			for _, arg := range call.Common().Args {
				if dependsOn(arg, func(x ssa.Value) bool {
					ci, ok := x.(*ssa.Call)
					return ok && a.isDirCall(ci.Common(), a.DirList, a.KindSnapshot)
				}) {
					fromList = true
				}
			}
			loop := naturalLoop(head)
			var problems []string
			if !fromList {
				problems = append(problems, "the epoch handed to the loader does not derive from Directory.List(ItemKindSnapshot)")
			}
			ex := &Explorer{Fn: fn}
			ex.Outcomes = func(ci ssa.CallInstruction, st *PState) []Outcome {
				if ci == ssa.CallInstruction(call) {
					return []Outcome{{Results: []Tri{TriYes, TriNo}, Flags: fLoadedOK}, {Results: []Tri{TriNo, TriYes}, Flags: fFailedNow}}
				}
				return nil
			}
			ex.OnEdge = func(from, to *ssa.BasicBlock, st *PState) {
				if to == head && loop[from] {
					st.Flags &^= fFailedNow
				}
			}
			ex.OnReturn = func(r *ssa.Return, st *PState) {
				if st.Flags&fFailedNow != 0 {
					problems = append(problems, "a failed snapshot load reaches a return at "+c.Pos(r.Pos())+" without going back to the loop over the remaining snapshots")
				}
				ei := fnErrIdx(fn)
				if lerr := errResult(call); lerr != nil && st.Flags&fLoadedOK != 0 && ei >= 0 && st.Eval(r.Results[ei]) != TriNo {
					// the error of a skipped snapshot must not be what the open returns once another snapshot loaded
					if st.Canon(r.Results[ei]) == st.Canon(lerr) || dependsOnStop(r.Results[ei], func(y ssa.Value) bool { return y == lerr }, func(y ssa.Value) bool { _, isCall := y.(*ssa.Call); return isCall }) && st.Eval(r.Results[ei]) == TriYes {
						problems = append(problems, "the error of a skipped (unloadable) snapshot is returned at "+c.Pos(r.Pos())+" although another snapshot was loaded: open fails after a torn newest snapshot")
					}
				}
			}
			ex.OnInstr = func(in ssa.Instruction, st *PState) bool {
				if _, isPanic := in.(*ssa.Panic); isPanic && st.Flags&fFailedNow != 0 {
					problems = append(problems, "a failed snapshot load reaches a panic")
				}
				if cc := callOf(in); cc != nil && st.Flags&fFailedNow != 0 {
					if f := cc.StaticCallee(); f != nil && f.Pkg != nil && (f.Pkg.Pkg.Path() == "log" && strings.HasPrefix(f.Name(), "Fatal") || f.Pkg.Pkg.Path() == "os" && f.Name() == "Exit") {
						problems = append(problems, "a failed snapshot load terminates the process")
					}
				}
				return true
			}
			ex.Run()
			if ex.Exceeded {
				c.Undecided(key, c.Pos(call.Pos()), "path exploration did not finish")
				continue
			}
			c.Check(len(problems) == 0, key+" is retried over older snapshots", c.Pos(call.Pos()),
				"on the loader's failure edge control returns to the loop head; no return/panic/exit is reachable before", uniqJoin(problems))
		}
	}
}

func ruleC03R2(c *Ctx) {
	a := c.Idx()
	fValidate := c.Field(pkgIndex, "Config", "ValidateSnapshotCRC")
	hashReader := c.Named(pkgIndex, "countHashReader")
	hashWriter := c.Named(pkgIndex, "countHashWriter")
	crcWidth := constIntOf(c.Program, pkgIndex, "crcWidth")
	readFrom := c.Method(pkgIndex, "Snapshot", "ReadFrom")

	for _, fn := range snapshotLoaders(c.Program) {
		name := FuncName(fn)
		var validateLoad ssa.Value
		var hashMk, readCall, limit *ssa.Call
		var data ssa.Value
		eachInstr(fn, func(in ssa.Instruction) {
			if u, ok := in.(*ssa.UnOp); ok && u.Op == token.MUL && isFieldAddr(u.X, fValidate) {
				validateLoad = u
			}
			ci, ok := in.(*ssa.Call)
			if !ok {
				return
			}
			cc := ci.Common()
			switch {
			case namedOf(ci.Type()) == hashReader && cc.StaticCallee() != nil && cc.StaticCallee().Signature.Recv() == nil:
				hashMk = ci
			case cc.StaticCallee() == readFrom:
				readCall = ci
			case isPkgFunc(cc, "io", "LimitReader"):
				limit = ci
			case a.isDirCall(cc, a.DirLoad, a.KindSnapshot):
				data = resultValue(ci, 0)
			}
		})
		// the comparison of the computed sum with the file trailer: in the loader itself, or in a
		// verifier helper that receives the loaded data
		findCmp := func(f *ssa.Function, dataVal ssa.Value) (eq, rd *ssa.Call) {
			eachInstr(f, func(in ssa.Instruction) {
				ci, ok := in.(*ssa.Call)
				if !ok {
					return
				}
				cc := ci.Common()
				switch {
				case isPkgFunc(cc, "bytes", "Equal"):
					eq = ci
				case cc.StaticCallee() != nil && cc.StaticCallee().Name() == "Read" && cc.StaticCallee().Signature.Recv() != nil && dataVal != nil && len(cc.Args) == 3 && (cc.Args[0] == dataVal || sameBase(cc.Args[0], dataVal)):
					rd = ci
				}
			})
			return
		}
		cmpFn, cmpData := fn, data
		var helperCall *ssa.Call
		eqCall, dataRead := findCmp(fn, data)
		if (eqCall == nil || dataRead == nil) && data != nil {
			eachInstr(fn, func(in ssa.Instruction) {
				ci, ok := in.(*ssa.Call)
				if !ok || helperCall != nil {
					return
				}
				h := ci.Common().StaticCallee()
				if h == nil || h.Blocks == nil || funcPkgPath(h) != pkgIndex || fnErrIdx(h) < 0 {
					return
				}
				for i, arg := range ci.Common().Args {
					if (arg == data || sameBase(arg, data)) && i < len(h.Params) {
						if e2, r2 := findCmp(h, h.Params[i]); e2 != nil && r2 != nil {
							helperCall, cmpFn, cmpData, eqCall, dataRead = ci, h, h.Params[i], e2, r2
						}
					}
				}
			})
		}
		pos := c.Pos(fn.Pos())
		if validateLoad == nil || hashMk == nil || readCall == nil || eqCall == nil || dataRead == nil || limit == nil {
			c.Violate("checksum validation present in "+name, pos, fmt.Sprintf("the loader lacks a part of the validation (config test %v, hashing reader %v, decoder call %v, bytes.Equal %v, trailer read %v, limit reader %v)",
				validateLoad != nil, hashMk != nil, readCall != nil, eqCall != nil, dataRead != nil, limit != nil))
			continue
		}
		// (a) path rule: on validating paths a non-nil snapshot is returned only behind Equal == true
		const fEq uint64 = 1
		var problems []string
		if helperCall != nil {
			// the helper's contract: a possibly-nil error only behind the true edge of the comparison
			hei := fnErrIdx(cmpFn)
			hx := &Explorer{Fn: cmpFn}
			hx.Outcomes = func(ci ssa.CallInstruction, st *PState) []Outcome {
				if ci == ssa.CallInstruction(eqCall) {
					return []Outcome{{Results: []Tri{TriYes}, Flags: fEq}, {Results: []Tri{TriNo}}}
				}
				return nil
			}
			hx.OnReturn = func(r *ssa.Return, st *PState) {
				if hei < len(r.Results) && st.Eval(r.Results[hei]) != TriYes && st.Flags&fEq == 0 {
					problems = append(problems, "the verifier "+FuncName(cmpFn)+" can return a nil error at "+c.Pos(r.Pos())+" without the comparison having succeeded")
				}
			}
			hx.Run()
			if hx.Exceeded {
				c.Undecided("snapshot accepted only behind the checksum in "+name, pos, "path exploration did not finish")
				continue
			}
		}
		ex := &Explorer{Fn: fn, Keep: map[ssa.Value]bool{validateLoad: true}}
		ex.Outcomes = func(ci ssa.CallInstruction, st *PState) []Outcome {
			if helperCall == nil && ci == ssa.CallInstruction(eqCall) {
				return []Outcome{{Results: []Tri{TriYes}, Flags: fEq}, {Results: []Tri{TriNo}}}
			}
			if helperCall != nil && ci == ssa.CallInstruction(helperCall) {
				n := helperCall.Common().Signature().Results().Len()
				okR, badR := make([]Tri, n), make([]Tri, n)
				okR[fnErrIdx(cmpFn)], badR[fnErrIdx(cmpFn)] = TriNo, TriYes
				return []Outcome{{Results: okR, Flags: fEq}, {Results: badR}}
			}
			return nil
		}
		sawValidating := false
		ex.OnInstr = func(in ssa.Instruction, st *PState) bool {
			if in == ssa.Instruction(readCall) && st.Eval(validateLoad) == TriYes {
				sawValidating = true
				// the decoder must read through the hashing reader on this path
				arg := readCall.Common().Args[1]
				if st.Canon(stripIface(st.Canon(arg))) != ssa.Value(hashMk) && stripIface(st.Canon(arg)) != ssa.Value(hashMk) {
					problems = append(problems, "with validation on, the decoder does not read through the hashing reader")
				}
			}
			return true
		}
		ex.OnReturn = func(r *ssa.Return, st *PState) {
			if len(r.Results) == 0 || st.Eval(r.Results[0]) == TriNo {
				return
			}
			if st.Eval(validateLoad) != TriNo && st.Flags&fEq == 0 {
				problems = append(problems, "a path returns a snapshot at "+c.Pos(r.Pos())+" with validation not known to be off and without passing the true edge of the checksum comparison")
			}
		}
		ex.Run()
		if ex.Exceeded {
			c.Undecided("snapshot accepted only behind the checksum in "+name, pos, "path exploration did not finish")
		} else {
			if !sawValidating {
				problems = append(problems, "no path decodes with validation on")
			}
			c.Check(len(problems) == 0, "snapshot accepted only behind the checksum in "+name, pos,
				"every return of a snapshot on a validating path passed bytes.Equal==true; the decoder read through the hashing reader", uniqJoin(problems))
		}
		// (b) provenance of the compared values
		isSum := func(x ssa.Value) bool {
			ci, ok := x.(*ssa.Call)
			if !ok {
				return false
			}
			f := ci.Common().StaticCallee()
			return f != nil && f.Name() == "Sum32" && f.Signature.Recv() != nil && namedOf(f.Signature.Recv().Type()) == hashReader &&
				dependsOn(ci.Common().Args[0], func(y ssa.Value) bool { return y == ssa.Value(hashMk) })
		}
		// what counts as "the computed sum" inside the function that compares: the Sum32 call itself,
		// or the helper's parameter that the loader fills with it
		isSumHere := isSum
		if helperCall != nil {
			sumParams := map[ssa.Value]bool{}
			for i, arg := range helperCall.Common().Args {
				if i < len(cmpFn.Params) && dependsOn(arg, isSum) {
					sumParams[cmpFn.Params[i]] = true
				}
			}
			isSumHere = func(x ssa.Value) bool { return sumParams[x] }
		}
		// computed side: a buffer filled by PutUint32(buf, Sum32()) -- find the PutUint32 call on the same buffer
		args := eqCall.Common().Args
		computedOK, storedOK := false, false
		for _, arg := range args {
			if dependsOn(arg, func(y ssa.Value) bool { return y == ssa.Value(resultValue(dataRead, 0)) }) {
				storedOK = true
				continue
			}
			eachInstr(cmpFn, func(in ssa.Instruction) {
				ci, ok := in.(*ssa.Call)
				if !ok {
					return
				}
				f := ci.Common().StaticCallee()
				if f == nil || f.Name() != "PutUint32" || len(ci.Common().Args) < 3 {
					return
				}
				if sameBufferValue(ci.Common().Args[1], arg) && dependsOn(ci.Common().Args[2], isSumHere) {
					computedOK = true
				}
			})
		}
		// all crcWidth bytes take part: an operand re-sliced to fewer bytes compares less than the checksum
		whole := true
		for _, arg := range args {
			if sl, ok := arg.(*ssa.Slice); ok {
				lowOK := sl.Low == nil
				if k, okc := constInt(sl.Low); sl.Low != nil && okc && k == 0 {
					lowOK = true
				}
				highOK := sl.High == nil
				if k, okc := constInt(sl.High); sl.High != nil && okc && k >= crcWidth {
					highOK = true
				}
				if !lowOK || !highOK {
					whole = false
				}
			}
		}
		c.Check(whole, "checksum comparison covers all checksum bytes in "+name, c.Pos(eqCall.Pos()), "no operand is re-sliced to fewer than crcWidth bytes",
			"an operand of the comparison is re-sliced to fewer than crcWidth bytes: a damaged snapshot with a wrong checksum is accepted")
		c.Check(computedOK && storedOK, "checksum comparison compares hash-reader sum with the file trailer in "+name, c.Pos(eqCall.Pos()),
			"one operand is filled from Sum32() of the hashing reader the decoder read through, the other is read from the loaded data",
			fmt.Sprintf("the comparison does not compare the computed checksum (ok=%v) with the stored one (ok=%v)", computedOK, storedOK))
		// (c) both ranges derive from Len()-crcWidth
		isLenMinusWidthOf := func(v ssa.Value, d ssa.Value) bool {
			v = stripConv(v)
			b, ok := v.(*ssa.BinOp)
			if !ok || b.Op != token.SUB {
				return false
			}
			n, okc := constInt(b.Y)
			return okc && n == crcWidth && isDataLen(b.X, d)
		}
		limOK := isLenMinusWidthOf(limit.Common().Args[1], data) && dependsOn(limit.Common().Args[0], func(y ssa.Value) bool {
			ci, ok := y.(*ssa.Call)
			return ok && len(ci.Common().Args) == 1 && ci.Common().Args[0] == data
		})
		c.Check(limOK, "hashed range is [0, Len()-crcWidth) in "+name, c.Pos(limit.Pos()), "LimitReader(data.Reader(), Len()-crcWidth)", "the decoder's input is not limited to Len()-crcWidth of the loaded data")
		rdOK := isLenMinusWidthOf(dataRead.Common().Args[1], cmpData) && isDataLen(dataRead.Common().Args[2], cmpData)
		// Len()-crcWidth may be negative for a torn file: the range read must sit behind a successful decode or a length guard
		var readSite ssa.Instruction = dataRead
		if helperCall != nil {
			readSite = helperCall
		}
		guardedRead := onSuccessEdge(readCall, readSite)
		lenGuard := func(f *ssa.Function, d ssa.Value, target ssa.Instruction) {
			eachInstr(f, func(in ssa.Instruction) {
				iff, ok := in.(*ssa.If)
				if !ok || !iff.Block().Dominates(target.Block()) {
					return
				}
				if b, ok := iff.Cond.(*ssa.BinOp); ok && (b.Op == token.LSS || b.Op == token.LEQ || b.Op == token.GTR || b.Op == token.GEQ) {
					if dependsOn(b.X, func(y ssa.Value) bool { return isDataLen(y, d) }) || dependsOn(b.Y, func(y ssa.Value) bool { return isDataLen(y, d) }) {
						guardedRead = true
					}
				}
			})
		}
		lenGuard(fn, data, readSite)
		if helperCall != nil {
			lenGuard(cmpFn, cmpData, dataRead)
		}
		c.Check(guardedRead, "trailer read cannot underflow in "+name, c.Pos(dataRead.Pos()), "data.Read(Len()-crcWidth, ..) runs only after the decoder accepted the (Len()-crcWidth)-limited input, or behind a length comparison",
			"the stored checksum is read at offset Len()-crcWidth without a preceding successful decode or length check: a torn snapshot file shorter than the checksum makes open panic (slice bounds out of range) instead of skipping it")
		c.Check(rdOK, "trailer range is [Len()-crcWidth, Len()) in "+name, c.Pos(dataRead.Pos()), "data.Read(Len()-crcWidth, Len())", "the stored checksum is not read from the last crcWidth bytes")
		// hashing reader wraps the limited reader
		wrapOK := dependsOn(hashMk.Common().Args[0], func(y ssa.Value) bool { return y == ssa.Value(limit) })
		c.Check(wrapOK, "hashing reader wraps the limited reader in "+name, c.Pos(hashMk.Pos()), "newCountHashReader(LimitReader(...))", "the hashing reader does not wrap the limited data reader")
	}

	// (d) default configuration validates
	nCfg := 0
	for _, fn := range c.FuncsIn(pkgIndex) {
		for _, st := range storesToField(fn, fValidate) {
			if !isFreshLocal(st.Addr.(*ssa.FieldAddr).X) {
				continue
			}
			nCfg++
			b, ok := constBool(st.Val)
			c.Check(ok && b, "default configuration validates snapshot CRCs in "+FuncName(fn), c.Pos(st.Pos()), "ValidateSnapshotCRC: true", "the default configuration does not validate snapshot checksums: torn snapshots are accepted")
		}
	}
	if nCfg == 0 {
		c.Violate("default configuration validates snapshot CRCs", "-", "no configuration literal sets ValidateSnapshotCRC")
	}

	// (e) writer side: every byte goes through the hashing writer, the sum is written last
	wt := c.Method(pkgIndex, "Snapshot", "WriteTo")
	var hw *ssa.Call
	eachInstr(wt, func(in ssa.Instruction) {
		if ci, ok := in.(*ssa.Call); ok && namedOf(ci.Type()) == hashWriter && ci.Common().StaticCallee() != nil && ci.Common().StaticCallee().Signature.Recv() == nil {
			hw = ci
		}
	})
	if hw == nil {
		c.Violate("snapshot writer hashes what it writes", c.Pos(wt.Pos()), "Snapshot.WriteTo creates no hashing writer")
		return
	}
	var problems []string
	nWrites := 0
	// the hashing writer, also when it lives in a captured cell or is seen from a closure
	isHW := func(v ssa.Value) bool {
		v = stripIface(v)
		if v == ssa.Value(hw) {
			return true
		}
		return dependsOnStop(v, func(y ssa.Value) bool { return y == ssa.Value(hw) }, func(y ssa.Value) bool { _, isCall := y.(*ssa.Call); return isCall && y != ssa.Value(hw) })
	}
	// writeTarget: the writer a call writes to (directly or by handing it to a helper), nil if the call does not write
	writeTarget := func(ci *ssa.Call) (ssa.Value, string) {
		if ci == hw {
			return nil, ""
		}
		cc := ci.Common()
		f := cc.StaticCallee()
		if f != nil && f.Signature.Recv() != nil && strings.HasPrefix(f.Name(), "Write") {
			return cc.Args[0], "write"
		}
		if cc.IsInvoke() && strings.HasPrefix(cc.Method.Name(), "Write") {
			return cc.Value, "write"
		}
		for _, arg := range cc.Args {
			if it, ok := arg.Type().Underlying().(*types.Interface); ok && it.NumMethods() > 0 && hasMethodNamed(it, "Write") {
				if f != nil && (isFuncNamed(f, "bufio", "NewWriter") || f.Pkg != nil && f.Pkg.Pkg.Path() == pkgIndex && namedOf(ci.Type()) == hashWriter) {
					continue
				}
				return arg, "writer handed to " + FuncName(f)
			}
		}
		return nil, ""
	}
	const (
		wfSummed uint64 = 1 << iota
		wfWroteAfterSum
		wfWroteTwiceAfterSum
		wfFlushed
		wfBypass
		// context-free events of a callee (closure): translated by Combine
		evWroteHW
		evWroteOther
	)
	applyWrite := func(flags uint64, hwTarget bool) uint64 {
		if flags&wfSummed == 0 {
			if !hwTarget {
				flags |= wfBypass
			}
			return flags
		}
		if flags&wfWroteAfterSum != 0 {
			flags |= wfWroteTwiceAfterSum
		}
		return flags | wfWroteAfterSum
	}
	sm := &Summarizer{}
	sm.Follow = func(fn *ssa.Function) bool { return fn.Parent() != nil && enclosingTop(fn) == wt } // local closures only
	sm.SiteOutcomes = func(ci ssa.CallInstruction, st *PState) []Outcome {
		call, ok := ci.(*ssa.Call)
		if !ok {
			return nil
		}
		f := call.Common().StaticCallee()
		if f != nil && f.Name() == "Flush" && f.Signature.Recv() != nil {
			return []Outcome{{Results: []Tri{TriNo}, Flags: st.Flags | wfFlushed, Replace: true}, {Results: []Tri{TriYes}, Flags: st.Flags, Replace: true}}
		}
		if f != nil && f.Name() == "Sum32" && f.Signature.Recv() != nil && isHW(call.Common().Args[0]) {
			return []Outcome{{Flags: st.Flags | wfSummed, Replace: true}}
		}
		if tgt, _ := writeTarget(call); tgt != nil {
			nWrites++
			fl := st.Flags
			if call.Parent() == wt {
				fl = applyWrite(fl, isHW(tgt))
			} else if isHW(tgt) {
				fl |= evWroteHW
			} else {
				fl |= evWroteOther
			}
			return []Outcome{{Flags: fl, Replace: true}}
		}
		return nil
	}
	sm.Combine = func(caller, callee uint64) uint64 {
		f := caller
		if callee&evWroteHW != 0 {
			f = applyWrite(f, true)
		}
		if callee&evWroteOther != 0 {
			f = applyWrite(f, false)
		}
		return f
	}
	ex := sm.Explorer(wt)
	ex.OnReturn = func(r *ssa.Return, st *PState) {
		ei := fnErrIdx(wt)
		if st.Flags&wfBypass != 0 {
			problems = append(problems, "a write reaches the file without passing the hashing writer before the checksum is taken")
		}
		if ei < 0 || st.Eval(r.Results[ei]) == TriYes {
			return
		}
		if st.Flags&wfSummed == 0 || st.Flags&wfWroteAfterSum == 0 || st.Flags&wfFlushed == 0 {
			problems = append(problems, "a success path does not end with Sum32 -> write of the sum -> successful Flush")
		}
		if st.Flags&wfWroteTwiceAfterSum != 0 {
			problems = append(problems, "more than one write follows the checksum computation")
		}
	}
	ex.Run()
	// the written trailer is the sum
	sumFlows := false
	eachInstr(wt, func(in ssa.Instruction) {
		ci, ok := in.(*ssa.Call)
		if !ok {
			return
		}
		f := ci.Common().StaticCallee()
		if f != nil && f.Name() == "PutUint32" && len(ci.Common().Args) >= 3 && dependsOn(ci.Common().Args[2], func(y ssa.Value) bool {
			c2, ok := y.(*ssa.Call)
			return ok && c2.Common().StaticCallee() != nil && c2.Common().StaticCallee().Name() == "Sum32" && isHW(c2.Common().Args[0])
		}) {
			sumFlows = true
		}
	})
	if !sumFlows {
		problems = append(problems, "the value encoded as trailer is not Sum32() of the hashing writer")
	}
	c.Check(len(problems) == 0 && !ex.Exceeded && !sm.Exceeded, "snapshot writer hashes every byte and writes the sum last", c.Pos(wt.Pos()),
		fmt.Sprintf("%d write sites, all through the hashing writer until the sum is taken; Sum32 -> one write -> Flush on every success path", nWrites), uniqJoin(problems))
}

func passesWriter(cc *ssa.CallCommon) bool {
	for _, arg := range cc.Args {
		if it, ok := arg.Type().Underlying().(*types.Interface); ok && hasMethodNamed(it, "Write") {
			return true
		}
	}
	return false
}

func hasMethodNamed(it *types.Interface, name string) bool {
	for i := 0; i < it.NumMethods(); i++ {
		if it.Method(i).Name() == name {
			return true
		}
	}
	return false
}

func constIntOf(p *Program, pkg, name string) int64 {
	cst, ok := p.Obj(pkg, name).(*types.Const)
	if !ok {
		panic(unresolvedAnchor{"const " + pkg + "." + name})
	}
	var n int64
	fmt.Sscanf(cst.Val().ExactString(), "%d", &n)
	return n
}

// isDataLen: v is data.Len() for the given data value.
func isDataLen(v ssa.Value, data ssa.Value) bool {
	ci, ok := stripConv(v).(*ssa.Call)
	if !ok {
		return false
	}
	f := ci.Common().StaticCallee()
	return f != nil && f.Name() == "Len" && len(ci.Common().Args) == 1 && ci.Common().Args[0] == data
}

// sameBufferValue: two slice values view the same local buffer (same value, or slices of the same allocation).
func sameBufferValue(x, y ssa.Value) bool {
	if x == y {
		return true
	}
	root := func(v ssa.Value) ssa.Value {
		for {
			switch s := v.(type) {
			case *ssa.Slice:
				v = s.X
			case *ssa.Phi:
				return v
			default:
				return v
			}
		}
	}
	return root(x) == root(y)
}

// ---- C03.R3 -------------------------------------------------------------------------

func ruleC03R3(c *Ctx) {
	a := c.Idx()
	// who writes / reads nextSegmentID
	n := 0
	for _, fn := range c.FuncsIn(pkgIndex) {
		eachInstr(fn, func(in ssa.Instruction) {
			fa, ok := in.(*ssa.FieldAddr)
			if !ok || fieldVar(fa) != a.WNextSegmentID || fa.Referrers() == nil {
				return
			}
			for _, r := range *fa.Referrers() {
				n++
				key := fmt.Sprintf("access #%d to Writer.nextSegmentID in %s", n, FuncName(fn))
				switch x := r.(type) {
				case *ssa.Call:
					f := x.Common().StaticCallee()
					okAtomic := f != nil && f.Pkg != nil && f.Pkg.Pkg.Path() == "sync/atomic" && f.Name() == "AddUint64"
					if okAtomic {
						// must add a positive constant
						d, isC := constInt(x.Common().Args[1])
						okAtomic = isC && d >= 1
					}
					c.Check(okAtomic, key, c.Pos(r.Pos()), "atomic.AddUint64(&nextSegmentID, k) with constant k >= 1", "nextSegmentID is passed to something other than an atomic increment")
				case *ssa.Store, *ssa.UnOp:
					// plain access: only in the constructor, before any goroutine is started
					fresh := isFreshLocal(fa.X)
					beforeGo := true
					eachInstr(fn, func(g ssa.Instruction) {
						if _, isGo := g.(*ssa.Go); isGo && reachesInstr(g, r) {
							beforeGo = false
						}
					})
					if st, isStore := x.(*ssa.Store); isStore && fresh && beforeGo {
						// the stored value derives from the listing of segment files or is an increment of the field
						fromList := dependsOn(st.Val, func(y ssa.Value) bool {
							ci, ok := y.(*ssa.Call)
							return ok && a.isDirCall(ci.Common(), a.DirList, a.KindSegment)
						})
						isInc := false
						if b, ok := st.Val.(*ssa.BinOp); ok && b.Op == token.ADD {
							if k, okc := constInt(b.Y); okc && k >= 1 && dependsOnField(b.X, a.WNextSegmentID) {
								isInc = true
							}
						}
						c.Check(fromList || isInc, key, c.Pos(r.Pos()), "constructor store: value from Directory.List(ItemKindSegment) or an increment", "nextSegmentID is initialised from something else than the listing of existing segment files")
					} else {
						c.Check(fresh && beforeGo, key, c.Pos(r.Pos()), "plain access in the constructor before any goroutine starts", "plain (non-atomic) access to nextSegmentID outside the constructor or after a goroutine was started")
					}
				default:
					c.Undecided(key, c.Pos(r.Pos()), "unknown use of &nextSegmentID")
				}
			}
		})
	}
	// initial value: max listed id (index 0 of the descending listing)
	initOK := false
	for _, st := range storesToField(a.OpenWriter, a.WNextSegmentID) {
		if dependsOn(st.Val, func(y ssa.Value) bool {
			ia, ok := y.(*ssa.IndexAddr)
			if !ok {
				return false
			}
			k, isC := constInt(ia.Index)
			return isC && k == 0 && dependsOn(ia.X, func(z ssa.Value) bool {
				ci, ok := z.(*ssa.Call)
				return ok && a.isDirCall(ci.Common(), a.DirList, a.KindSegment)
			})
		}) {
			initOK = true
		}
	}
	c.Check(initOK, "nextSegmentID starts above the largest listed segment id", c.Pos(a.OpenWriter.Pos()), "initialised from element 0 of the (descending) listing of ItemKindSegment", "nextSegmentID is not initialised from the largest existing segment id: a recovered writer could overwrite a live segment file")

	// epochs: in each goroutine root that hands epochs to introductions, the counter is never handed out twice
	for _, root := range goTargets(a.OpenWriter) {
		var epochParam *ssa.Parameter
		for _, prm := range root.Params {
			if b, ok := prm.Type().Underlying().(*types.Basic); ok && b.Kind() == types.Uint64 && strings.Contains(strings.ToLower(prm.Name()), "epoch") {
				// is it passed on to functions that build a Snapshot with that epoch?
				epochParam = prm
			}
		}
		if epochParam == nil {
			continue
		}
		// consumers: calls receiving a value that derives from the parameter and that (transitively) store it into Snapshot.epoch
		var phis []*ssa.Phi
		eachInstr(root, func(in ssa.Instruction) {
			if ph, ok := in.(*ssa.Phi); ok && dependsOn(ph, func(y ssa.Value) bool { return y == ssa.Value(epochParam) }) && types.Identical(ph.Type(), epochParam.Type()) {
				phis = append(phis, ph)
			}
		})
		var consumers []*ssa.Call
		eachInstr(root, func(in ssa.Instruction) {
			ci, ok := in.(*ssa.Call)
			if !ok || ci.Common().StaticCallee() == nil || !c.InRepo(ci.Common().StaticCallee()) {
				return
			}
			for i, arg := range ci.Common().Args {
				if !types.Identical(arg.Type(), epochParam.Type()) {
					continue
				}
				if !dependsOn(arg, func(y ssa.Value) bool { return y == ssa.Value(epochParam) }) {
					continue
				}
				callee := ci.Common().StaticCallee()
				if i < len(callee.Params) && paramFlowsToField(callee.Params[i], a.SnapEpoch) {
					consumers = append(consumers, ci)
				}
			}
		})
		if len(consumers) == 0 {
			continue
		}
		key := "epoch counter of " + FuncName(root) + " is only incremented"
		var problems []string
		// every phi edge is the parameter, another phi, or value+const
		isCounterPhi := map[*ssa.Phi]bool{}
		for _, ph := range phis {
			isCounterPhi[ph] = true
			for _, e := range ph.Edges {
				switch x := e.(type) {
				case *ssa.Parameter, *ssa.Phi:
				case *ssa.BinOp:
					k, okc := constInt(x.Y)
					if x.Op != token.ADD || !okc || k < 1 {
						problems = append(problems, "the epoch counter is updated by something other than += k")
					}
				default:
					problems = append(problems, "the epoch counter is assigned from an unrelated value")
				}
			}
		}
		// path rule: an epoch value handed to a consumer must not flow unchanged into the next loop round
		isConsumer := map[ssa.Instruction]ssa.Value{}
		for _, cons := range consumers {
			for _, arg := range cons.Common().Args {
				if types.Identical(arg.Type(), epochParam.Type()) && dependsOn(arg, func(y ssa.Value) bool { return y == ssa.Value(epochParam) }) {
					isConsumer[cons] = arg
				}
			}
		}
		const fConsumed uint64 = 1
		ex := &Explorer{Fn: root}
		ex.OnInstr = func(in ssa.Instruction, st *PState) bool {
			if v, ok := isConsumer[in]; ok {
				st.Flags |= fConsumed
				st.Trace = fmt.Sprintf("%p", st.Canon(v))
			}
			return true
		}
		ex.OnPhi = func(phi *ssa.Phi, src ssa.Value, from *ssa.BasicBlock, st *PState) {
			if !isCounterPhi[phi] || !phi.Block().Dominates(from) {
				return // only loop-carried (back) edges of the counter
			}
			if st.Flags&fConsumed != 0 && (src == ssa.Value(phi) || src == st.Canon(phi) || st.Trace == fmt.Sprintf("%p", src)) {
				problems = append(problems, "an epoch that was handed to an introduction flows unchanged around the loop (back edge from block "+itoa(from.Index)+"): it would be handed out again")
			}
		}
		ex.OnEdge = func(from, to *ssa.BasicBlock, st *PState) {
			if to.Dominates(from) {
				st.Flags &^= fConsumed
				st.Trace = ""
			}
		}
		ex.Run()
		if ex.Exceeded {
			c.Undecided(key, c.Pos(root.Pos()), "path exploration did not finish")
		} else {
			c.Check(len(problems) == 0, key, c.Pos(root.Pos()), fmt.Sprintf("%d consumer call(s); on every path from a consumer back to the loop head the counter was advanced", len(consumers)), uniqJoin(problems))
		}
		// the initial value: derived from the loaded epochs (+1)
		for _, cs := range c.Light().Callers(root) {
			_ = cs
		}
		eachInstr(a.OpenWriter, func(in ssa.Instruction) {
			g, ok := in.(*ssa.Go)
			if !ok || g.Common().StaticCallee() != root {
				return
			}
			for i, arg := range g.Common().Args {
				if i < len(root.Params) && root.Params[i] == epochParam {
					okInit := dependsOn(arg, func(y ssa.Value) bool {
						ci, ok := y.(*ssa.Call)
						if !ok || ci.Common().StaticCallee() == nil {
							return false
						}
						return nextEpochFromLoaded(ci.Common().StaticCallee(), a)
					})
					c.Check(okInit, "initial epoch of "+FuncName(root)+" follows the last loaded snapshot", c.Pos(g.Pos()),
						"the start epoch is computed by the recovery function as (epoch of a loaded snapshot)+1", "the first epoch after recovery does not derive from the loaded snapshot's epoch + 1: a recovered writer could reuse an epoch on disk")
				}
			}
		})
	}
}

// reachesInstr: is there a CFG path from instruction a to instruction b (same function)?
func reachesInstr(a, b ssa.Instruction) bool {
	if a.Block() == b.Block() && instrIndex(a) < instrIndex(b) {
		return true
	}
	seen := map[*ssa.BasicBlock]bool{}
	stack := append([]*ssa.BasicBlock{}, a.Block().Succs...)
	for len(stack) > 0 {
		x := stack[len(stack)-1]
		stack = stack[:len(stack)-1]
		if seen[x] {
			continue
		}
		seen[x] = true
		if x == b.Block() {
			return true
		}
		stack = append(stack, x.Succs...)
	}
	return false
}

func blockReachable(from, to *ssa.BasicBlock) bool {
	if from == to {
		return true
	}
	seen := map[*ssa.BasicBlock]bool{}
	stack := []*ssa.BasicBlock{from}
	for len(stack) > 0 {
		x := stack[len(stack)-1]
		stack = stack[:len(stack)-1]
		if seen[x] {
			continue
		}
		seen[x] = true
		if x == to {
			return true
		}
		stack = append(stack, x.Succs...)
	}
	return false
}

// paramFlowsToField: the parameter is stored into field fv somewhere in its function.
func paramFlowsToField(prm *ssa.Parameter, fv *types.Var) bool {
	fn := prm.Parent()
	ok := false
	for _, st := range storesToField(fn, fv) {
		if dependsOn(st.Val, func(y ssa.Value) bool { return y == ssa.Value(prm) }) {
			ok = true
		}
	}
	return ok
}

// nextEpochFromLoaded: fn returns a value computed as (Snapshot.epoch load)+1.
func nextEpochFromLoaded(fn *ssa.Function, a *IdxAnchors) bool {
	if fn.Blocks == nil {
		return false
	}
	found := false
	eachInstr(fn, func(in ssa.Instruction) {
		b, ok := in.(*ssa.BinOp)
		if !ok || b.Op != token.ADD {
			return
		}
		k, okc := constInt(b.Y)
		if !okc || k != 1 {
			return
		}
		if f, _ := loadedField(b.X); f == a.SnapEpoch {
			found = true
		}
	})
	return found
}
