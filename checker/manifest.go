package main

import (
	"strings"
	"encoding/json"
	"fmt"
	"os"
	"sort"
)

// notApplicable: properties that static analysis cannot decide, with the reason.
var notApplicable = map[string]string{
	"C18": "totality/offset-correctness/determinism quantify over all byte strings through ~150 tokenizers and filters; the only static handle (bounds obligations on rune-slice indexing) needs a value-range analysis whose unproven residue on correct code would be false alarms; no sound static rule in reach",

}

var allPropertyIDs = []string{"C01", "C02", "C03", "C04", "C05", "C06", "C07", "C08", "C09", "C10", "C11", "C12", "C13", "C14", "C15", "C16", "C17", "C18", "C19", "C20"}

func emitManifest() {
	type lvl struct {
		Category  string `json:"category"`
		Text      string `json:"text"`
		DesignRef string `json:"design_ref"`
	}
	type check struct {
		PropertyID string `json:"property_id"`
		Quick      string `json:"quick_cmd"`
		Thorough   string `json:"thorough_cmd"`
		Evidence   string `json:"evidence_file"`
		Replay     string `json:"replay_cmd_template"`
		Engine     string `json:"engine"`
		Level      lvl    `json:"level_claimed"`
		LevelNote  string `json:"level_note"`
		Technique  string `json:"technique"`
	}
	type na struct {
		PropertyID string `json:"property_id"`
		Reason     string `json:"reason"`
	}
	var checks []check
	nas := []na{}
	var served []string
	for _, id := range allPropertyIDs {
		p := propReg[id]
		if p == nil {
			r := notApplicable[id]
			if r == "" {
				r = "no static check registered for this property yet; nothing is claimed"
			}
			nas = append(nas, na{id, r})
			continue
		}
		served = append(served, id)
		tech := "static analysis: go/packages + go/ssa, path-sensitive typestate / must-pass-through over all CFG paths, data-dependence slices, who-may-call over the call graph; rules: "
		for i, r := range p.Rules {
			if i > 0 {
				tech += ", "
			}
			tech += r
		}
		if p.Technique != "" {
			tech = "static analysis: " + p.Technique + "; rules: " + strings.Join(p.Rules, ", ")
		}
		checks = append(checks, check{
			PropertyID: id,
			Quick:      "bin/verifcheck -property " + id + " -tier quick",
			Thorough:   "bin/verifcheck -property " + id + " -tier thorough",
			Evidence:   "evidence/" + id + ".json",
			Replay:     "bin/verifcheck -replay {path}",
			Engine:     "verifcheck",
			Level: lvl{Category: "other",
				Text:      "Structural necessary conditions of the property, decided exhaustively over every path/site/implementation of the current source (not a proof of the behavioural statement). Decided: " + p.Decides + " Not decided: " + p.NotCovered,
				DesignRef: "DESIGN.md section 3, " + id},
			LevelNote: "Trusted: Go type checker, go/ssa, call graph (CHA/VTA), semantics of os/flock/mmap and of the segment and roaring libraries. Obligations are keyed rule|construct; instance counts under the hand-confirmed floor, unresolved anchors, undecided idioms and fixtures that do not fire all fail the check (exit 2).",
			Technique: tech,
		})
	}
	sort.Slice(nas, func(i, j int) bool { return nas[i].PropertyID < nas[j].PropertyID })
	m := map[string]interface{}{
		"version":   1,
		"setup_cmd": "cd /verif/checker && env -u GOWORK GOFLAGS=-mod=mod GOPROXY=off GOSUMDB=off GOTOOLCHAIN=local go build -o /verif/bin/verifcheck .",
		"hooks": map[string]interface{}{
			"guard":            "verif",
			"enable":           "no hooks: the checks read /repo's source (go/packages + go/ssa) and never build or run it; the tag 'verif' is reserved and unused",
			"baseline_off_cmd": "/verif/tools/baseline.sh /repo",
			"source_commits":   []string{},
			"add_only":         true,
		},
		"engines": []map[string]interface{}{{
			"name": "verifcheck", "path": "checker/", "serves_properties": served,
			"kind_free_text": "custom whole-program static analyser for bluge (go/packages, go/ssa, call graph): path-sensitive typestate exploration, dependence slices, who-may-call, lock-set, sibling cross-checks; in-memory fixtures and mutants validate the rules",
		}},
		"checks":         checks,
		"not_applicable": nas,
		"notes":          "Technique family: static analysis only. Exit codes: 0 held / 1 VIOLATION / 2 undecided (load error, unresolved anchor, unknown idiom, vacuous rule, fixture not fired) / 3 self-validation (mutants) failed. Genuine defects found on the pinned tree are recorded in known_findings.json (fixed ones with their fix: commit).",
	}
	b, _ := json.MarshalIndent(m, "", " ")
	fmt.Fprintln(os.Stdout, string(b))
}
