package main

import (
	"bytes"
	"encoding/json"
	"fmt"
	"os"
	"os/exec"
	"path/filepath"
	"sort"
	"strings"
	"sync"
)

// Mutant is an in-memory edit of one repository file that still type-checks and breaks
// exactly one rule instance. It is applied through packages.Config.Overlay in a child
// process; the repository is never modified. Mutants validate the *checker*: a mutant that
// applies and is not reported makes the thorough tier exit 3.
type Mutant struct {
	ID       string
	Property string // property whose check must report it
	Rule     string // rule that must report it
	File     string // path relative to the repository root
	Old, New string // first occurrence of Old is replaced by New
	Marker   string // optional substring the violated construct must contain
	Why      string
}

type mutantSummary struct {
	Total     int      `json:"total"`
	Applied   int      `json:"applied"`
	Killed    int      `json:"killed"`
	Missed    int      `json:"missed"`
	Skipped   int      `json:"skipped_old_fragment_absent"`
	NoCompile int      `json:"skipped_does_not_typecheck"`
	MissedIDs []string `json:"missed_ids,omitempty"`
	Details   []string `json:"details"`
}

func mutantsFor(pid string) []Mutant {
	var rv []Mutant
	for _, m := range mutantTable {
		if m.Property == pid {
			rv = append(rv, m)
		}
	}
	return rv
}

func findMutant(id string) *Mutant {
	for i := range mutantTable {
		if mutantTable[i].ID == id {
			return &mutantTable[i]
		}
	}
	return nil
}

type childResult struct {
	Status      string       `json:"status"` // ok | skipped | notypecheck
	Err         string       `json:"err,omitempty"`
	Obligations []Obligation `json:"obligations"`
}

// doMutantChild: analyse the property with one mutant applied; print obligations as JSON.
func doMutantChild(o *options) int {
	m := findMutant(o.mutant)
	out := childResult{Status: "ok"}
	emit := func() int {
		b, _ := json.Marshal(out)
		fmt.Println(string(b))
		return 0
	}
	if m == nil {
		out.Status, out.Err = "skipped", "unknown mutant"
		return emit()
	}
	path := filepath.Join(o.repo, m.File)
	src, err := os.ReadFile(path)
	if err != nil || !bytes.Contains(src, []byte(m.Old)) {
		out.Status = "skipped"
		return emit()
	}
	mutated := bytes.Replace(src, []byte(m.Old), []byte(m.New), 1)
	p, err := LoadProgram(o.repo, BuildConfig{"linux", "amd64"}, map[string][]byte{path: mutated})
	if err != nil {
		out.Status, out.Err = "notypecheck", firstLine(err.Error())
		return emit()
	}
	pid := o.property
	if pid == "" {
		pid = m.Property
	}
	var obs []Obligation
	var notes []string
	if r := ruleReg[m.Rule]; r != nil {
		runRule(p, r, &obs, &notes)
	}
	for _, ob := range obs {
		if ob.Verdict != Discharged {
			out.Obligations = append(out.Obligations, ob)
		}
	}
	return emit()
}

func runMutants(o *options, pid string) *mutantSummary {
	ms := mutantsFor(pid)
	sum := &mutantSummary{Total: len(ms)}
	exe, err := os.Executable()
	if err != nil {
		sum.Details = append(sum.Details, "cannot locate own executable: "+err.Error())
		sum.Missed = len(ms)
		return sum
	}
	// baseline: constructs already violated on the unmutated tree do not count as kills
	type res struct {
		m   Mutant
		out childResult
		err error
	}
	results := make([]res, len(ms))
	sem := make(chan struct{}, 6)
	var wg sync.WaitGroup
	for i, m := range ms {
		wg.Add(1)
		go func(i int, m Mutant) {
			defer wg.Done()
			sem <- struct{}{}
			defer func() { <-sem }()
			cmd := exec.Command(exe, "-repo", o.repo, "-verif", o.verif, "-mutant", m.ID, "-property", pid)
			var stdout bytes.Buffer
			cmd.Stdout = &stdout
			cmd.Stderr = os.Stderr
			err := cmd.Run()
			r := res{m: m, err: err}
			lines := strings.Split(strings.TrimSpace(stdout.String()), "\n")
			if len(lines) > 0 {
				_ = json.Unmarshal([]byte(lines[len(lines)-1]), &r.out)
			}
			results[i] = r
		}(i, m)
	}
	wg.Wait()
	for _, r := range results {
		switch {
		case r.err != nil || r.out.Status == "":
			sum.Missed++
			sum.MissedIDs = append(sum.MissedIDs, r.m.ID)
			sum.Details = append(sum.Details, fmt.Sprintf("%s: child failed: %v", r.m.ID, r.err))
		case r.out.Status == "skipped":
			sum.Skipped++
			sum.Details = append(sum.Details, r.m.ID+": skipped (old fragment not present in the current tree)")
		case r.out.Status == "notypecheck":
			sum.NoCompile++
			sum.Details = append(sum.Details, r.m.ID+": skipped (mutant does not type-check against the current tree: "+r.out.Err+")")
		default:
			sum.Applied++
			hit := ""
			for _, ob := range r.out.Obligations {
				if ob.Rule == r.m.Rule && ob.Verdict == Violated && (r.m.Marker == "" || strings.Contains(ob.Construct, r.m.Marker)) {
					hit = ob.Key()
					break
				}
			}
			if hit != "" {
				sum.Killed++
				sum.Details = append(sum.Details, fmt.Sprintf("%s: killed by %s (%s)", r.m.ID, hit, r.m.Why))
			} else {
				sum.Missed++
				sum.MissedIDs = append(sum.MissedIDs, r.m.ID)
				sum.Details = append(sum.Details, fmt.Sprintf("%s: NOT reported (%s)", r.m.ID, r.m.Why))
			}
		}
	}
	sort.Strings(sum.Details)
	return sum
}
