package main

import (
	"fmt"
	"go/token"
	"go/types"
	"strings"

	"golang.org/x/tools/go/ssa"
)

func init() {
	registerProperty(&PropertyInfo{
		ID:    "C14",
		Title: "I/O failures are reported, contained and recovered from",
		Rules: []string{"C14.R1", "C14.R2", "C14.R3", "C13.R1", "C11.R2", "C02.R1", "C02.R2"},
		Decides: "error discipline on every site and path: no error returned by the storage layer (Directory.*, WriterTo.WriteTo, segment plugin New/Load, DocsMatchingTerms, DeletionPolicy.Cleanup) or by a package-index function that wraps it is discarded, except at clean-up calls (Close/DecRef family); on the failure edge of the persist call in the persister every waiting channel gets the error (C02.R1), the asynchronous error callback fires unless the error is the closed sentinel, the failed round's callbacks are kept for the next successful round, and control returns to the loop head; likewise in the merger; the user-supplied AsyncError/EventCallback functions are invoked only behind a nil check of the very field; no partial file survives a failed write (C13.R1) and failed removals are retried (C11.R2). after a failed storage call a function with an error result does not return nil with the error having gone nowhere; the loops' progress marker (last epoch done) does not advance on the failing edge. handing an error to a callback and returning nil is not accepted in a function with an error result; moving on to the next item of a do-everything loop drops the failure.",
		NotCovered: "that nothing hangs under faults (liveness); what readers answer during a fault (C04); behaviour of faults inside the segment library.",
	})
	registerRule(&RuleInfo{ID: "C14.R1", Title: "no storage error is dropped", Floor: 30, Run: ruleC14R1,
		Covers: "every call in package index of a storage primitive or of a function that (transitively) wraps one and returns an error"})
	registerRule(&RuleInfo{ID: "C14.R2", Title: "the failure paths of persister and merger report and retry", Floor: 2, Run: ruleC14R2,
		Covers: "path-sensitive exploration from the failure outcome of the persist / plan call in each background loop"})
	registerRule(&RuleInfo{ID: "C14.R3", Title: "configuration callbacks are invoked only behind their nil check", Floor: 2, Run: ruleC14R3,
		Covers: "every call of a function value loaded from Config.AsyncError / Config.EventCallback"})
}

// storagePrimitive: the call is a storage-layer primitive whose error matters.
func storagePrimitive(c *Ctx, cc *ssa.CallCommon) string {
	a := c.Idx()
	if cc.IsInvoke() {
		for _, m := range []*types.Func{a.DirSetup, a.DirList, a.DirLoad, a.DirPersist, a.DirRemove, a.DirSync, a.DirLock, a.DirUnlock, a.WriteTo, a.DPCleanup} {
			if callsIfaceMethod(cc, m) {
				return m.Name()
			}
		}
		if cc.Method.Name() == "DocsMatchingTerms" {
			return "DocsMatchingTerms"
		}
		return ""
	}
	// calls through the segment plugin's function fields
	if f, _ := loadedField(cc.Value); f != nil && (f.Name() == "New" || f.Name() == "Load") && f.Pkg() != nil && f.Pkg().Path() == pkgIndex {
		return "SegmentPlugin." + f.Name()
	}
	return ""
}

func ruleC14R1(c *Ctx) {
	g := c.Light()
	// wrappers: package-index functions returning an error that reach a storage primitive
	hasPrim := map[*ssa.Function]bool{}
	for _, fn := range c.FuncsIn(pkgIndex) {
		eachInstr(fn, func(in ssa.Instruction) {
			if cc := callOf(in); cc != nil && storagePrimitive(c, cc) != "" {
				hasPrim[enclosingTop(fn)] = true
			}
		})
	}
	wraps := map[*ssa.Function]bool{}
	for _, fn := range c.FuncsIn(pkgIndex) {
		if fn.Parent() != nil || errorResultIndex(fn.Signature) < 0 {
			continue
		}
		for r := range g.Reach(fn) {
			if hasPrim[r] {
				wraps[fn] = true
				break
			}
		}
	}
	cleanupName := func(n string) bool {
		switch n {
		case "Close", "DecRef", "decRef", "close":
			return true
		}
		return false
	}
	n := 0
	for _, fn := range c.FuncsIn(pkgIndex) {
		eachInstr(fn, func(in ssa.Instruction) {
			ci, ok := in.(ssa.CallInstruction)
			if !ok {
				return
			}
			cc := ci.Common()
			what := storagePrimitive(c, cc)
			callee := cc.StaticCallee()
			if what == "" && callee != nil && wraps[callee] && !cleanupName(callee.Name()) {
				what = FuncName(callee)
			}
			if what == "" || errorResultIndex(cc.Signature()) < 0 {
				return
			}
			n++
			key := fmt.Sprintf("error of %s call #%d in %s", what, n, FuncName(fn))
			pos := c.Pos(in.Pos())
			if _, isDefer := in.(*ssa.Defer); isDefer {
				c.Violate(key, pos, "deferred storage call: its error is lost")
				return
			}
			if _, isGo := in.(*ssa.Go); isGo {
				c.Violate(key, pos, "storage call started as a goroutine: its error is lost")
				return
			}
			ev := errResult(ci)
			used := ev != nil && ev.Referrers() != nil && len(*ev.Referrers()) > 0
			c.Check(used, key, pos, "the error is examined / propagated", "the error result is discarded: an I/O failure here goes unnoticed")
			if used {
				c.failureIsNotSuccess(fn, ci, ev, key, pos)
			}
		})
	}
}

func ruleC14R2(c *Ctx) {
	a := c.Idx()
	fAsync := c.Field(pkgIndex, "Config", "AsyncError")
	// the function that invokes Config.AsyncError behind a nil check (fireAsyncError)
	fires := map[*ssa.Function]bool{}
	for _, fn := range c.FuncsIn(pkgIndex) {
		eachInstr(fn, func(in ssa.Instruction) {
			if cc := callOf(in); cc != nil && loadsField(cc.Value, fAsync) {
				fires[fn] = true
			}
		})
	}
	isFire := func(cc *ssa.CallCommon) bool {
		if cc == nil {
			return false
		}
		if loadsField(cc.Value, fAsync) {
			return true
		}
		return cc.StaticCallee() != nil && fires[cc.StaticCallee()]
	}
	roots, others := persisterRoots(c.Program)
	m := newDurabilityModel(c.Program)
	const (
		fFailed uint64 = 1 << (iota + 20)
		fFired
		fSaved
	)
	check := func(root *ssa.Function, isTarget func(ci *ssa.Call) bool, label string, needSave bool) {
		var target *ssa.Call
		eachInstr(root, func(in ssa.Instruction) {
			if ci, ok := in.(*ssa.Call); ok && target == nil && isTarget(ci) {
				target = ci
			}
		})
		key := label + " failure is reported and retried in " + FuncName(root)
		if target == nil {
			c.Violate(key, c.Pos(root.Pos()), "the background loop has no such call")
			return
		}
		ev := errResult(target)
		// the sentinel comparison err == ErrClosed
		var closedTest ssa.Value
		eachInstr(root, func(in ssa.Instruction) {
			if b, ok := in.(*ssa.BinOp); ok && b.Op == token.EQL && (b.X == ev || b.Y == ev) {
				other := b.Y
				if b.Y == ev {
					other = b.X
				}
				if u, ok := isLoad(other); ok {
					if g, ok := u.X.(*ssa.Global); ok && strings.Contains(g.Name(), "ErrClosed") {
						closedTest = b
					}
				}
			}
		})
		head := enclosingLoopHeader(target.Block())
		for head != nil && !outermostLoop(head) {
			// climb to the outermost loop
			var up *ssa.BasicBlock
			for _, o := range root.Blocks {
				if o != head && naturalLoop(o)[head] {
					isHeader := false
					for _, p := range o.Preds {
						if o.Dominates(p) {
							isHeader = true
						}
					}
					if isHeader {
						up = o
					}
				}
			}
			if up == nil {
				break
			}
			head = up
		}
		var problems []string
		ex := &Explorer{Fn: root, Keep: map[ssa.Value]bool{}}
		if closedTest != nil {
			ex.Keep[closedTest] = true
		}
		if ev != nil {
			ex.Keep[ev] = true
		}
		ex.Outcomes = func(ci ssa.CallInstruction, st *PState) []Outcome {
			if ci == ssa.CallInstruction(target) {
				return []Outcome{{Results: []Tri{TriNo}, Flags: st.Flags &^ (fFailed | fFired | fSaved), Replace: true}, {Results: []Tri{TriYes}, Flags: st.Flags&^(fFired|fSaved) | fFailed, Replace: true}}
			}
			return nil
		}
		ex.OnInstr = func(in ssa.Instruction, st *PState) bool {
			if st.Flags&fFailed == 0 {
				return true
			}
			cc := callOf(in)
			if isFire(cc) {
				st.Flags |= fFired
			}
			if cc != nil && builtinName(cc) == "append" && len(cc.Args) == 2 && dependsOnField(cc.Args[1], a.WPersistedCallbacks) {
				st.Flags |= fSaved
			}
			return true
		}
		ex.OnPhi = func(phi *ssa.Phi, src ssa.Value, from *ssa.BasicBlock, st *PState) {
			// the loop's progress marker ("last epoch done") must not advance on the failing path
			if phi.Block() == head && head != nil && naturalLoop(head)[from] && st.Flags&fFailed != 0 {
				// the operand written on this very edge (the canonical value may stem from an earlier, successful round)
				raw := src
				for i, pb := range phi.Block().Preds {
					if pb == from && i < len(phi.Edges) {
						raw = phi.Edges[i]
					}
				}
				if f, _ := loadedField(raw); f == a.SnapEpoch {
					problems = append(problems, "the epoch of the failed round is recorded as done ("+phi.Comment+"): the loop then waits for a later epoch instead of retrying, pending work stays undone until another batch arrives")
				}
			}
		}
		ex.OnEdge = func(from, to *ssa.BasicBlock, st *PState) {
			if to == head && head != nil && naturalLoop(head)[from] && st.Flags&fFailed != 0 {
				if st.Flags&fFired == 0 {
					problems = append(problems, "the loop goes on after a failure without firing the asynchronous error callback")
				}
				if needSave && st.Flags&fSaved == 0 {
					problems = append(problems, "the persisted-callbacks of the failed round are dropped instead of being kept for the next successful round")
				}
				st.Flags &^= fFailed | fFired | fSaved
			}
		}
		ex.OnReturn = func(r *ssa.Return, st *PState) {
			if st.Flags&fFailed == 0 {
				return
			}
			if closedTest == nil || st.Eval(closedTest) != TriYes {
				problems = append(problems, "the background loop terminates at "+c.Pos(r.Pos())+" after an ordinary failure (only the closed sentinel may end it): nothing is persisted/merged any more")
			}
		}
		ex.Run()
		if ex.Exceeded {
			c.Undecided(key, c.Pos(target.Pos()), "path exploration did not finish")
			return
		}
		c.Check(len(problems) == 0, key, c.Pos(target.Pos()), "fires AsyncError, keeps pending callbacks, and returns to the loop head; only the closed sentinel ends the loop", uniqJoin(problems))
	}
	if len(roots) == 1 {
		check(roots[0], func(ci *ssa.Call) bool {
			callee := ci.Common().StaticCallee()
			return callee != nil && c.InRepo(callee) && m.guarantees(callee)
		}, "persist", true)
	} else {
		c.Undecided("persister root", "-", "no unique persister goroutine")
	}
	for _, o := range others {
		// the merger: the root that reaches a segment persist
		reach := c.Light().Reach(o)
		isMerger := false
		for f := range reach {
			if f.Blocks != nil && c.InRepo(f) {
				eachInstr(f, func(in ssa.Instruction) {
					if cc := callOf(in); cc != nil && cc.IsInvoke() && a.isDirCall(cc, a.DirPersist, a.KindSegment) {
						isMerger = true
					}
				})
			}
		}
		if !isMerger {
			continue
		}
		check(o, func(ci *ssa.Call) bool {
			callee := ci.Common().StaticCallee()
			if callee == nil || !c.InRepo(callee) || errorResultIndex(callee.Signature) < 0 || callee.Signature.Recv() == nil {
				return false
			}
			r := c.Light().Reach(callee)
			hit := false
			for f := range r {
				if f.Blocks != nil && c.InRepo(f) {
					eachInstr(f, func(in ssa.Instruction) {
						if cc := callOf(in); cc != nil && cc.IsInvoke() && a.isDirCall(cc, a.DirPersist, a.KindSegment) {
							hit = true
						}
					})
				}
			}
			return hit
		}, "merge", false)
	}
}

func ruleC14R3(c *Ctx) {
	fields := []*types.Var{c.Field(pkgIndex, "Config", "AsyncError"), c.Field(pkgIndex, "Config", "EventCallback")}
	n := 0
	for _, fn := range c.SrcFuncs() {
		eachInstr(fn, func(in ssa.Instruction) {
			cc := callOf(in)
			if cc == nil || cc.IsInvoke() || cc.StaticCallee() != nil {
				return
			}
			var fv *types.Var
			for _, f := range fields {
				if loadsField(cc.Value, f) {
					fv = f
				}
			}
			if fv == nil {
				return
			}
			n++
			key := fmt.Sprintf("call #%d of Config.%s in %s", n, fv.Name(), FuncName(fn))
			// dominated by the non-nil edge of a test of the same field
			guarded := false
			eachInstr(fn, func(x ssa.Instruction) {
				iff, ok := x.(*ssa.If)
				if !ok {
					return
				}
				b, ok := iff.Cond.(*ssa.BinOp)
				if !ok || b.Op != token.NEQ && b.Op != token.EQL {
					return
				}
				var other ssa.Value
				if isNilConst(b.Y) {
					other = b.X
				} else if isNilConst(b.X) {
					other = b.Y
				} else {
					return
				}
				if !loadsField(other, fv) {
					return
				}
				k := 0
				if b.Op == token.EQL {
					k = 1
				}
				if edgeDominates(iff, k, in.Block()) {
					guarded = true
				}
			})
			c.Check(guarded, key, c.Pos(in.Pos()), "behind `if config."+fv.Name()+" != nil`", "the optional callback (nil in the default configuration) is called without a nil check: the background goroutine panics on the first error it wants to report")
		})
	}
}

// failureIsNotSuccess: on every path on which the storage call failed, the function must not
// end by reporting success. Accepted ways to deal with the failure (enumerated from the tree):
// return a non-nil error (wrapped or not); send the error (or something derived from it) on a
// channel; store it somewhere; go round a loop again (retry / next candidate: `continue`); or the
// function has no error result of its own and returns a value that tells failure apart
// (nil pointer / false). What is rejected: the failing edge joins the success path and the
// function returns a nil error without the error value having gone anywhere. Handing the error
// to a callback or a logger and then returning nil is NOT accepted in a function that has an
// error result: its caller (the background loop) takes the nil for success, records the round as
// done and never retries (only the loops themselves, which have no error result, report through
// the asynchronous callback: C14.R2).
func (c *Ctx) failureIsNotSuccess(fn *ssa.Function, site ssa.CallInstruction, ev ssa.Value, key, pos string) {
	ei := errorResultIndex(fn.Signature)
	if ei < 0 || fn.Parent() != nil {
		return // no error result of its own: reporting is by other means (C14.R2 covers the loops)
	}
	const (
		fFailed uint64 = 1 << iota
		fDealt
	)
	n := site.Common().Signature().Results().Len()
	sei := errorResultIndex(site.Common().Signature())
	var problems []string
	isErr := func(y ssa.Value) bool { return y == ev }
	// going round a loop again after the failure is a way of dealing with it only in a loop that
	// looks for one success (try the next candidate / try again: the success path leaves the loop).
	// In a loop that does every item, moving on to the next item after a failure just drops it.
	searchLoop, inLoop := false, false
	if h := enclosingLoopHeader(site.Block()); h != nil {
		loop := naturalLoop(h)
		searchLoop, inLoop = true, true
		// can the header be reached again, inside the loop, from the continuation on which the call succeeded?
		sx := &Explorer{Fn: fn, Keep: map[ssa.Value]bool{ev: true}}
		sx.Outcomes = func(ci ssa.CallInstruction, st *PState) []Outcome {
			if ci != site {
				return nil
			}
			okR := make([]Tri, n)
			if n == 1 {
				okR = []Tri{TriNo}
			} else {
				okR[sei] = TriNo
			}
			return []Outcome{{Results: okR}}
		}
		sx.EdgeFilter = func(from, to *ssa.BasicBlock, st *PState) bool {
			if to == h && loop[from] {
				searchLoop = false
				return false
			}
			return loop[to]
		}
		// one exception, by design of the recovery protocol: a snapshot that fails to load is skipped and
		// the next one is tried, also in the loop that loads all of them in turn (C03.R1 decides that
		// protocol: open fails only when nothing could be loaded)
		tolerated := false
		if callee := site.Common().StaticCallee(); callee != nil && funcInSet(callee, snapshotLoaders(c.Program)) {
			tolerated = true
		}
		if tolerated {
			// keep searchLoop = true
		} else if call, ok := site.(*ssa.Call); ok {
			init := newPState()
			if n == 1 {
				init.env[call] = TriNo
			} else {
				okR := make([]Tri, n)
				okR[sei] = TriNo
				init.tuple[call] = okR
			}
			sx.Keep[call] = true
			sx.RunAfter(call, init)
		} else {
			searchLoop = false
		}
	}
	ex := &Explorer{Fn: fn, Keep: map[ssa.Value]bool{ev: true}}
	ex.Outcomes = func(ci ssa.CallInstruction, st *PState) []Outcome {
		if ci != site {
			return nil
		}
		okR, badR := make([]Tri, n), make([]Tri, n)
		if n == 1 {
			okR, badR = []Tri{TriNo}, []Tri{TriYes}
		} else {
			okR[sei], badR[sei] = TriNo, TriYes
		}
		okFlags := st.Flags &^ (fFailed | fDealt)
		if inLoop && !searchLoop {
			okFlags = st.Flags // a later item's success does not make up for an earlier item's failure
		}
		return []Outcome{{Results: okR, Flags: okFlags, Replace: true}, {Results: badR, Flags: st.Flags&^fDealt | fFailed, Replace: true}}
	}
	ex.OnInstr = func(in ssa.Instruction, st *PState) bool {
		if st.Flags&fFailed == 0 || in == site.(ssa.Instruction) {
			return true
		}
		switch x := in.(type) {
		case *ssa.Send:
			if dependsOn(x.X, isErr) {
				st.Flags |= fDealt
			}
		case *ssa.Store:
			// into a field or element of something that outlives the call (not a local cell, not the
			// argument array of a variadic call)
			if _, isLocal := addrRoot(x.Addr).(*ssa.Alloc); !isLocal && dependsOn(x.Val, isErr) {
				st.Flags |= fDealt
			}
		}
		return true
	}
	ex.OnEdge = func(from, to *ssa.BasicBlock, st *PState) {
		if st.Flags&fFailed != 0 && searchLoop {
			if h := enclosingLoopHeader(site.Block()); h != nil && to == h && naturalLoop(h)[from] {
				st.Flags |= fDealt
			}
		}
	}
	ex.OnReturn = func(r *ssa.Return, st *PState) {
		if st.Flags&fFailed == 0 || st.Flags&fDealt != 0 {
			return
		}
		if ei < len(r.Results) && st.Eval(r.Results[ei]) != TriNo {
			return
		}
		problems = append(problems, "after this call failed the function returns a nil error at "+c.Pos(r.Pos())+" and the error went nowhere")
	}
	ex.Run()
	if ex.Exceeded {
		c.Undecided(key+" [failure is not reported as success]", pos, "path exploration did not finish")
		return
	}
	c.Check(len(problems) == 0, key+" [failure is not reported as success]", pos, "on the failing edge the function returns an error, hands the error on, or retries", uniqJoin(problems))
}
