package main

import (
	"go/ast"
	"go/token"
	"go/types"
)

// inspectCompositeAt finds the composite literal starting at pos and records, per package,
// the selector members used as its field values (e.g. iceV1.Type, iceV1.New).
func inspectCompositeAt(f *ast.File, pos token.Pos, info *types.Info, out map[string][]string) {
	ast.Inspect(f, func(n ast.Node) bool {
		cl, ok := n.(*ast.CompositeLit)
		if !ok {
			return true
		}
		if !(cl.Pos() <= pos && pos <= cl.End()) {
			return true
		}
		// the innermost literal containing pos whose Lbrace/Type starts at pos (ssa Alloc pos = Lbrace)
		if cl.Lbrace != pos && cl.Pos() != pos {
			return true
		}
		for _, el := range cl.Elts {
			kv, ok := el.(*ast.KeyValueExpr)
			if !ok {
				continue
			}
			sel, ok := kv.Value.(*ast.SelectorExpr)
			if !ok {
				continue
			}
			id, ok := sel.X.(*ast.Ident)
			if !ok {
				continue
			}
			if pn, ok := info.Uses[id].(*types.PkgName); ok {
				key := ""
				if k, ok := kv.Key.(*ast.Ident); ok {
					key = k.Name
				}
				out[pn.Imported().Path()] = append(out[pn.Imported().Path()], key)
			}
		}
		return false
	})
}
