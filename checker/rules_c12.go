package main

import (
	"fmt"
	"go/token"
	"go/types"
	"sort"
	"strings"

	"golang.org/x/tools/go/ssa"
)

func init() {
	registerProperty(&PropertyInfo{
		ID:    "C12",
		Title: "Snapshot files round-trip and every damaged file is rejected safely",
		Rules: []string{"C12.R1", "C12.R2", "C12.R3", "C12.R4", "C12.R5", "C12.R6", "C12.R7", "C03.R1", "C03.R2", "C03.R4"},
		Decides: "decoder obligations on every path: the sequence of encoding primitives (uvarint, fixed 4-byte big-endian, raw bytes) emitted by Snapshot.WriteTo and its helpers equals, as a set of traces over zero and one segment record, the sequence consumed by Snapshot.ReadFrom and its helpers plus the CRC trailer; every buffer fill in the decoder is an exact-length read; no value derived from the loaded (possibly memory-mapped) data is used after its closer ran; no length decoded from the file sizes an allocation without a dominating bound check; rejected snapshots are skipped and accepted ones are checksummed (C03.R1/R2). every value decoded with binary.Uvarint is used only behind a test of its byte count, and no unsigned count from the file is converted to a signed integer without an upper bound. every configuration constructor validates checksums (C03.R4).",
		NotCovered: "totality on ALL byte strings (that the roaring decoder and the segment plugins reject garbage); equality of decoded VALUES with the encoded ones (only the layout skeleton is compared).",
	})
	registerRule(&RuleInfo{ID: "C12.R1", Title: "writer and reader agree on the snapshot layout", Floor: 1, Run: ruleC12R1,
		Covers: "trace sets of encoding primitives extracted by path exploration (loops unrolled once, callees inlined through summaries)"})
	registerRule(&RuleInfo{ID: "C12.R2", Title: "every buffer fill in the decoder is an exact-length read", Floor: 2, Run: ruleC12R2,
		Covers: "all Read/ReadFull/CopyN sites reachable from Snapshot.ReadFrom"})
	registerRule(&RuleInfo{ID: "C12.R3", Title: "no use of loaded (mapped) bytes after their closer ran", Floor: 2, Run: ruleC12R3,
		Covers: "typestate over every (data, closer) pair obtained from Directory.Load; forward taint of views of data"})
	registerRule(&RuleInfo{ID: "C12.R4", Title: "lengths decoded from a file are bounded before they size an allocation", Floor: 1, Run: ruleC12R4,
		Covers: "taint from binary.Uvarint/UintNN to make sizes in the decoder family, discharged only by a dominating bound comparison"})
}

// decoderFamily: functions of package index reachable from Snapshot.ReadFrom, plus the snapshot loaders.
func decoderFamily(p *Program) []*ssa.Function {
	rf := p.Method(pkgIndex, "Snapshot", "ReadFrom")
	reach := p.Light().Reach(rf)
	set := map[*ssa.Function]bool{}
	for f := range reach {
		if funcPkgPath(f) == pkgIndex && f.Blocks != nil {
			set[f] = true
		}
	}
	for _, l := range snapshotLoaders(p) {
		set[l] = true
	}
	var rv []*ssa.Function
	for f := range set {
		rv = append(rv, f)
	}
	sortFuncs(p, rv)
	return rv
}

// ---- R1: layout traces ---------------------------------------------------------------

func isBinaryFunc(cc *ssa.CallCommon, name string) bool {
	f := staticCallee(cc)
	return f != nil && f.Pkg != nil && f.Pkg.Pkg.Path() == "encoding/binary" && f.Name() == name
}

func fixedArrayLen(v ssa.Value) (int64, bool) {
	// slice of a fixed-size array allocation
	s, ok := v.(*ssa.Slice)
	if !ok {
		return 0, false
	}
	al, ok := s.X.(*ssa.Alloc)
	if !ok {
		return 0, false
	}
	arr, ok := derefType(al.Type()).Underlying().(*types.Array)
	if !ok {
		return 0, false
	}
	if s.High != nil {
		if k, ok := constInt(s.High); ok {
			return k, true
		}
		return 0, false
	}
	return arr.Len(), true
}

const lfLooped uint64 = 1 << 62

// classifyWriteBuf: U = slice filled by PutUvarint (its length is PutUvarint's result), 4 = fixed 4 bytes, B = raw bytes.
func classifyWriteBuf(p ssa.Value) string {
	if sl, ok := p.(*ssa.Slice); ok && sl.High != nil {
		if dependsOn(sl.High, func(y ssa.Value) bool {
			c2, ok := y.(*ssa.Call)
			return ok && isBinaryFunc(c2.Common(), "PutUvarint")
		}) {
			return "U"
		}
		if k, ok := constInt(sl.High); ok && k == 4 {
			return "4"
		}
	}
	return "B"
}

func layoutTraces(p *Program, root *ssa.Function, classify func(call *ssa.Call) string) (map[string]bool, int, bool) {
	sites := map[ssa.Instruction]bool{}
	s := &Summarizer{}
	s.TraceMap = func(call ssa.CallInstruction, st *PState, tr string) string {
		if !strings.Contains(tr, "W") {
			return tr
		}
		cls := "B"
		for _, arg := range call.Common().Args {
			if isByteSlice(arg.Type()) {
				cls = classifyWriteBuf(arg)
			}
		}
		return strings.ReplaceAll(tr, "W", cls)
	}
	s.Follow = func(fn *ssa.Function) bool { return funcPkgPath(fn) == pkgIndex }
	s.SiteOutcomes = func(call ssa.CallInstruction, st *PState) []Outcome {
		ci, ok := call.(*ssa.Call)
		if !ok {
			return nil
		}
		ev := classify(ci)
		if ev == "" {
			return nil
		}
		sites[ci] = true
		// success / failure of the primitive: the error result (if any) decides
		sig := ci.Common().Signature()
		n := sig.Results().Len()
		ei := errorResultIndex(sig)
		okR, badR := make([]Tri, n), make([]Tri, n)
		if ei >= 0 {
			okR[ei], badR[ei] = TriNo, TriYes
			return []Outcome{{Results: okR, Trace: ev}, {Results: badR}}
		}
		return []Outcome{{Results: okR, Trace: ev}}
	}
	var explore func(fn *ssa.Function) *Explorer
	_ = explore
	// loops: at most one full iteration
	origExplorer := s.Explorer
	_ = origExplorer
	outs := summaryWithLoopBound(s, root)
	traces := map[string]bool{}
	ei := fnErrIdx(root)
	for _, o := range outs {
		if ei >= 0 && ei < len(o.Results) && o.Results[ei] == TriYes {
			continue
		}
		traces[o.Trace] = true
	}
	return traces, len(sites), s.Exceeded
}

// summaryWithLoopBound computes summaries where every loop is taken at most once.
func summaryWithLoopBound(s *Summarizer, root *ssa.Function) []RetOutcome {
	s.EdgeFilter = func(from, to *ssa.BasicBlock, st *PState) bool {
		if to.Dominates(from) { // back edge
			bit := uint64(1) << (uint(to.Index) % 60)
			if st.Flags&bit != 0 {
				return false
			}
			st.Flags |= bit
		}
		return true
	}
	s.ClearFlagsOnReturn = true
	return s.Summary(root)
}

func ruleC12R1(c *Ctx) {
	wt := c.Method(pkgIndex, "Snapshot", "WriteTo")
	rf := c.Method(pkgIndex, "Snapshot", "ReadFrom")
	crcWidth := constIntOf(c.Program, pkgIndex, "crcWidth")

	writerClass := func(ci *ssa.Call) string {
		cc := ci.Common()
		var p ssa.Value
		if f := cc.StaticCallee(); f != nil && f.Signature.Recv() != nil && f.Name() == "Write" && len(cc.Args) == 2 {
			if funcPkgPath(f) == pkgIndex {
				// the hashing writer's own Write: an emitting site when called from the encoder
				p = cc.Args[1]
			} else {
				p = cc.Args[1]
			}
		} else if cc.IsInvoke() && cc.Method.Name() == "Write" && len(cc.Args) == 1 {
			p = cc.Args[0]
		}
		if p == nil {
			return ""
		}
		if funcPkgPath(ci.Parent()) != pkgIndex {
			return ""
		}
		// pass-through writers (a Write method calling the wrapped writer) are not emitting sites
		if ci.Parent().Name() == "Write" && ci.Parent().Signature.Recv() != nil {
			return ""
		}
		if _, isParam := p.(*ssa.Parameter); isParam && ci.Parent().Parent() != nil {
			return "W" // a local closure writing its parameter: classified at the closure's call site
		}
		return classifyWriteBuf(p)
	}
	readerClass := func(ci *ssa.Call) string {
		cc := ci.Common()
		f := cc.StaticCallee()
		if funcPkgPath(ci.Parent()) != pkgIndex {
			return ""
		}
		if ci.Parent().Name() == "Read" && ci.Parent().Signature.Recv() != nil {
			return ""
		}
		if f != nil && f.Name() == "Discard" && f.Signature.Recv() != nil && len(cc.Args) == 2 {
			if dependsOn(cc.Args[1], func(y ssa.Value) bool {
				c2, ok := y.(*ssa.Call)
				return ok && isBinaryFunc(c2.Common(), "Uvarint")
			}) {
				return "U"
			}
			return "B"
		}
		var buf ssa.Value
		switch {
		case f != nil && f.Name() == "Read" && f.Signature.Recv() != nil && len(cc.Args) == 2:
			buf = cc.Args[1]
		case cc.IsInvoke() && cc.Method.Name() == "Read" && len(cc.Args) == 1:
			buf = cc.Args[0]
		case isPkgFunc(cc, "io", "ReadFull") || isPkgFunc(cc, "io", "ReadAtLeast"):
			buf = cc.Args[1]
		case isPkgFunc(cc, "io", "CopyN"):
			return "B"
		}
		if buf == nil {
			return ""
		}
		if k, ok := fixedArrayLen(buf); ok && k == 4 {
			return "4"
		}
		return "B"
	}
	w, nw, e1 := layoutTraces(c.Program, wt, writerClass)
	r0, nr, e2 := layoutTraces(c.Program, rf, readerClass)
	if e1 || e2 {
		c.Undecided("snapshot layout: WriteTo vs ReadFrom", c.Pos(wt.Pos()), "trace extraction did not finish")
		return
	}
	trailer := "?"
	if crcWidth == 4 {
		trailer = "4"
	}
	r := map[string]bool{}
	for t := range r0 {
		r[t+trailer] = true
	}
	var onlyW, onlyR []string
	for t := range w {
		if !r[t] {
			onlyW = append(onlyW, t)
		}
	}
	for t := range r {
		if !w[t] {
			onlyR = append(onlyR, t)
		}
	}
	sort.Strings(onlyW)
	sort.Strings(onlyR)
	all := []string{}
	for t := range w {
		all = append(all, t)
	}
	sort.Strings(all)
	c.Note("layout traces (U=uvarint, 4=fixed32, B=bytes; zero and one segment record): %s; %d writer sites, %d reader sites", strings.Join(all, " | "), nw, nr)
	ok := len(onlyW) == 0 && len(onlyR) == 0 && len(w) >= 2
	c.Check(ok, "snapshot layout: WriteTo vs ReadFrom", c.Pos(wt.Pos()),
		fmt.Sprintf("%d traces agree: %s", len(w), strings.Join(all, " | ")),
		fmt.Sprintf("writer-only traces %v, reader-only traces %v (U=uvarint, 4=fixed 4 bytes, B=raw bytes; reader traces include the CRC trailer)", onlyW, onlyR))
}

// ---- R2: exact-length reads ------------------------------------------------------------

func ruleC12R2(c *Ctx) {
	n := 0
	for _, fn := range decoderFamily(c.Program) {
		if fn.Name() == "Read" && fn.Signature.Recv() != nil {
			continue // an io.Reader implementation passes the short count on
		}
		eachInstr(fn, func(in ssa.Instruction) {
			ci, ok := in.(*ssa.Call)
			if !ok {
				return
			}
			cc := ci.Common()
			f := cc.StaticCallee()
			exact := isPkgFunc(cc, "io", "ReadFull") || isPkgFunc(cc, "io", "CopyN")
			raw := f != nil && f.Name() == "Read" && f.Signature.Recv() != nil && len(cc.Args) == 2 && isByteSlice(cc.Args[1].Type()) && funcPkgPath(f) != modPath+"_segment_api" ||
				cc.IsInvoke() && cc.Method.Name() == "Read" && len(cc.Args) == 1 && isByteSlice(cc.Args[0].Type())
			if f != nil && f.Pkg != nil && strings.HasSuffix(f.Pkg.Pkg.Path(), "bluge_segment_api") {
				raw = false // Data.Read(from,to) is a range view, not a stream read
			}
			if !exact && !raw {
				return
			}
			n++
			key := fmt.Sprintf("buffer fill #%d in %s", n, FuncName(fn))
			if exact {
				c.OK(key, c.Pos(in.Pos()), "exact-length read")
				return
			}
			// a raw Read is acceptable only if its count is compared with the buffer length
			cnt := resultValue(ci, 0)
			compared := false
			if cnt != nil && cnt.Referrers() != nil {
				for _, r := range *cnt.Referrers() {
					if b, ok := r.(*ssa.BinOp); ok && (b.Op == token.LSS || b.Op == token.NEQ || b.Op == token.EQL || b.Op == token.GEQ) {
						compared = true
					}
				}
			}
			c.Check(compared, key, c.Pos(in.Pos()), "short count is checked",
				"Read may return fewer bytes than the buffer holds (bufio.Reader returns what is buffered) and the count is not checked: every later field is decoded from the wrong offset; use io.ReadFull")
		})
	}
}

func isByteSlice(t types.Type) bool {
	s, ok := t.Underlying().(*types.Slice)
	if !ok {
		return false
	}
	b, ok := s.Elem().Underlying().(*types.Basic)
	return ok && b.Kind() == types.Uint8
}

// ---- R3: use after unmap ---------------------------------------------------------------

func isRefLike(t types.Type) bool {
	switch u := t.Underlying().(type) {
	case *types.Basic:
		return false
	case *types.Tuple:
		for i := 0; i < u.Len(); i++ {
			if isRefLike(u.At(i).Type()) {
				return true
			}
		}
		return false
	}
	return true
}

// forwardTaint: values in fn (and its closures) that may view the memory behind root.
func forwardTaint(root ssa.Value) map[ssa.Value]bool {
	set := map[ssa.Value]bool{root: true}
	work := []ssa.Value{root}
	add := func(v ssa.Value) {
		if v != nil && !set[v] && isRefLike(v.Type()) && !isErrorType(v.Type()) {
			set[v] = true
			work = append(work, v)
		}
	}
	for len(work) > 0 {
		v := work[len(work)-1]
		work = work[:len(work)-1]
		refs := v.Referrers()
		if refs == nil {
			continue
		}
		for _, r := range *refs {
			switch x := r.(type) {
			case *ssa.Call:
				if isErrorfLike(x.Common()) {
					continue
				}
				add(x)
			case *ssa.Extract:
				if isErrorType(x.Type()) {
					continue
				}
				add(x)
			case *ssa.Convert:
				// []byte -> string copies
				if _, toString := x.Type().Underlying().(*types.Basic); toString {
					continue
				}
				add(x)
			case *ssa.Phi, *ssa.Slice, *ssa.MakeInterface, *ssa.ChangeType, *ssa.ChangeInterface, *ssa.TypeAssert, *ssa.Field, *ssa.FieldAddr, *ssa.IndexAddr, *ssa.Index, *ssa.Lookup:
				add(x.(ssa.Value))
			case *ssa.UnOp:
				if x.Op == token.MUL {
					add(x)
				}
			case *ssa.Store:
				if x.Val == v {
					switch a := x.Addr.(type) {
					case *ssa.Alloc:
						// loads of the cell
						if a.Referrers() != nil {
							for _, rr := range *a.Referrers() {
								if u, ok := rr.(*ssa.UnOp); ok && u.Op == token.MUL {
									add(u)
								}
							}
						}
					case *ssa.FieldAddr:
						add(a.X) // the holder now views the data
					case *ssa.IndexAddr:
						add(a.X)
					}
				}
			case *ssa.MakeClosure:
				add(x)
			}
		}
	}
	return set
}

func isErrorfLike(cc *ssa.CallCommon) bool {
	return false
}

func ruleC12R3(c *Ctx) {
	a := c.Idx()
	const fClosed uint64 = 1
	for _, fn := range c.FuncsIn(pkgIndex) {
		var loads []*ssa.Call
		eachInstr(fn, func(in ssa.Instruction) {
			if ci, ok := in.(*ssa.Call); ok && ci.Common().IsInvoke() && a.isDirCall(ci.Common(), a.DirLoad, "") {
				loads = append(loads, ci)
			}
		})
		for i, ld := range loads {
			key := fmt.Sprintf("data of Directory.Load #%d in %s not used after its closer ran", i+1, FuncName(fn))
			data, closer := resultValue(ld, 0), resultValue(ld, 1)
			if data == nil || closer == nil {
				c.OK(key, c.Pos(ld.Pos()), "data or closer is discarded")
				continue
			}
			taint := forwardTaint(data)
			// closing instructions: invokes of Close whose receiver derives from the closer
			closing := map[ssa.Instruction]bool{}
			closingFns := map[*ssa.Function]bool{}
			for _, f := range withAnon(fn) {
				eachInstr(f, func(in ssa.Instruction) {
					cc := callOf(in)
					if cc == nil || !cc.IsInvoke() || cc.Method.Name() != "Close" {
						return
					}
					if dependsOn(cc.Value, func(y ssa.Value) bool { return y == closer }) {
						if f == fn {
							closing[in] = true
						} else {
							closingFns[f] = true
						}
					}
				})
			}
			// cells that collect the closer (e.g. a slice of closers closed later by a helper closure):
			// re-initialising such a cell starts a new generation of loaded items
			closerCells := map[*ssa.Alloc]bool{}
			isCloser := func(y ssa.Value) bool { return y == closer }
			eachInstr(fn, func(in ssa.Instruction) {
				if st, ok := in.(*ssa.Store); ok {
					if al, ok := st.Addr.(*ssa.Alloc); ok && dependsOn(st.Val, isCloser) {
						closerCells[al] = true
					}
				}
			})
			var problems []string
			ex := &Explorer{Fn: fn}
			ex.OnInstr = func(in ssa.Instruction, st *PState) bool {
				if in == ssa.Instruction(ld) {
					st.Flags &^= fClosed
					return true
				}
				if al, ok := in.(*ssa.Alloc); ok && closerCells[al] {
					st.Flags &^= fClosed // a new (zeroed) collection cell per loop round
					return true
				}
				if sto, ok := in.(*ssa.Store); ok {
					if al, ok := sto.Addr.(*ssa.Alloc); ok && closerCells[al] && !dependsOn(sto.Val, isCloser) {
						st.Flags &^= fClosed
						return true
					}
				}
				if _, isDefer := in.(*ssa.Defer); isDefer {
					return true
				}
				if closing[in] {
					st.Flags |= fClosed
					return true
				}
				if cc := callOf(in); cc != nil {
					if sc := cc.StaticCallee(); sc != nil && closingFns[sc] {
						st.Flags |= fClosed
						return true
					}
				}
				if st.Flags&fClosed == 0 {
					return true
				}
				switch x := in.(type) {
				case *ssa.Phi, *ssa.DebugRef:
					return true
				case *ssa.BinOp:
					if (x.Op == token.EQL || x.Op == token.NEQ) && (isNilConst(x.X) || isNilConst(x.Y)) {
						return true
					}
				case *ssa.If, *ssa.Jump:
					return true
				}
				for _, op := range in.Operands(nil) {
					if *op != nil && taint[*op] && *op != closer {
						if _, isRet := in.(*ssa.Return); isRet {
							problems = append(problems, "value derived from the loaded data is returned at "+c.Pos(in.Pos())+" after the closer ran")
						} else {
							problems = append(problems, "value derived from the loaded data is used at "+c.Pos(in.Pos())+" after the closer ran (use after unmap)")
						}
						break
					}
				}
				return true
			}
			ex.Run()
			if ex.Exceeded {
				c.Undecided(key, c.Pos(ld.Pos()), "path exploration did not finish")
				continue
			}
			c.Check(len(problems) == 0, key, c.Pos(ld.Pos()), fmt.Sprintf("%d values view the loaded data; none is used on any path after a Close of the closer", len(taint)), uniqJoin(problems))
		}
	}
}

// ---- R4: tainted allocation sizes --------------------------------------------------------

func isLengthSource(v ssa.Value) bool {
	ci, ok := v.(*ssa.Call)
	if !ok {
		return false
	}
	cc := ci.Common()
	f := cc.StaticCallee()
	if f == nil || f.Pkg == nil || f.Pkg.Pkg.Path() != "encoding/binary" {
		return false
	}
	switch f.Name() {
	case "Uvarint", "Varint", "Uint16", "Uint32", "Uint64", "ReadUvarint", "ReadVarint":
		return true
	}
	return false
}

func ruleC12R4(c *Ctx) {
	n := 0
	for _, fn := range decoderFamily(c.Program) {
		eachInstr(fn, func(in ssa.Instruction) {
			switch x := in.(type) {
			case *ssa.MakeSlice:
				n++
				key := fmt.Sprintf("allocation #%d in %s", n, FuncName(fn))
				var src ssa.Value
				for _, sz := range []ssa.Value{x.Len, x.Cap} {
					dependsOn(sz, func(y ssa.Value) bool {
						if isLengthSource(y) {
							src = y
							return true
						}
						// one interprocedural step: a parameter that some caller fills from a decoded length
						if prm, ok := y.(*ssa.Parameter); ok {
							for _, cs := range c.Light().Callers(fn) {
								args := cs.Instr.Common().Args
								for i, fp := range fn.Params {
									if fp == prm && i < len(args) && dependsOn(args[i], isLengthSource) {
										src = y
										return true
									}
								}
							}
						}
						return false
					})
				}
				if src == nil {
					c.OK(key, c.Pos(in.Pos()), "size does not derive from a length decoded from the input")
					return
				}
				// a dominating relational comparison between the decoded length and something not derived from it
				guarded := false
				eachInstr(fn, func(g ssa.Instruction) {
					iff, ok := g.(*ssa.If)
					if !ok || !iff.Block().Dominates(x.Block()) || iff.Block() == x.Block() {
						return
					}
					b, ok := iff.Cond.(*ssa.BinOp)
					if !ok {
						return
					}
					switch b.Op {
					case token.LSS, token.LEQ, token.GTR, token.GEQ:
					default:
						return
					}
					fromSrc := func(v ssa.Value) bool { return dependsOn(v, func(y ssa.Value) bool { return y == src }) }
					l, r := fromSrc(b.X), fromSrc(b.Y)
					if l == r {
						return
					}
					// an upper bound: len <= bound / len < bound / bound >= len / bound > len, or the negations on the other edge
					other := b.Y
					if r {
						other = b.X
					}
					if k, isC := constInt(other); isC && k == 0 {
						return // "len > 0" is not an upper bound
					}
					guarded = true
				})
				c.Check(guarded, key, c.Pos(in.Pos()), "the decoded length is compared with a bound before it sizes the allocation",
					"a length decoded from the file sizes an allocation without any dominating upper-bound check: a damaged or hostile length field makes open panic (makeslice: len out of range) or allocate out of proportion to the file")
			case *ssa.Alloc:
				if arr, ok := derefType(x.Type()).Underlying().(*types.Array); ok && x.Comment == "makeslice" {
					n++
					c.OK(fmt.Sprintf("allocation #%d in %s", n, FuncName(fn)), c.Pos(in.Pos()), fmt.Sprintf("constant size %d", arr.Len()))
				}
			}
		})
	}
}
