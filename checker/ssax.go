package main

import (
	"go/constant"
	"go/token"
	"go/types"
	"strings"

	"golang.org/x/tools/go/ssa"
)

// ---- generic SSA helpers ----------------------------------------------------------

func callOf(in ssa.Instruction) *ssa.CallCommon {
	if ci, ok := in.(ssa.CallInstruction); ok {
		return ci.Common()
	}
	return nil
}

// staticCallee is the statically resolved callee (function, method, or closure literal).
func staticCallee(cc *ssa.CallCommon) *ssa.Function {
	if cc == nil {
		return nil
	}
	return cc.StaticCallee()
}

func isNilConst(v ssa.Value) bool {
	c, ok := v.(*ssa.Const)
	return ok && c.Value == nil && !isBasicNonNilable(c.Type())
}

func isBasicNonNilable(t types.Type) bool {
	switch u := t.Underlying().(type) {
	case *types.Basic:
		return u.Kind() != types.UnsafePointer && u.Kind() != types.UntypedNil
	case *types.Struct, *types.Array:
		return true
	}
	return false
}

func constString(v ssa.Value) (string, bool) {
	c, ok := v.(*ssa.Const)
	if !ok || c.Value == nil || c.Value.Kind() != constant.String {
		return "", false
	}
	return constant.StringVal(c.Value), true
}

func constInt(v ssa.Value) (int64, bool) {
	c, ok := v.(*ssa.Const)
	if !ok || c.Value == nil || c.Value.Kind() != constant.Int {
		return 0, false
	}
	i, ok := constant.Int64Val(c.Value)
	return i, ok
}

func constBool(v ssa.Value) (bool, bool) {
	c, ok := v.(*ssa.Const)
	if !ok || c.Value == nil || c.Value.Kind() != constant.Bool {
		return false, false
	}
	return constant.BoolVal(c.Value), true
}

var errorType = types.Universe.Lookup("error").Type()

func isErrorType(t types.Type) bool { return types.Identical(t, errorType) }

// errorResultIndex returns the index of the (last) error-typed result of sig, or -1.
func errorResultIndex(sig *types.Signature) int {
	rs := sig.Results()
	for i := rs.Len() - 1; i >= 0; i-- {
		if isErrorType(rs.At(i).Type()) {
			return i
		}
	}
	return -1
}

// resultValue returns the SSA value holding result #idx of a call (the call itself for
// single-result functions, the Extract otherwise); nil when the result is discarded.
func resultValue(call ssa.CallInstruction, idx int) ssa.Value {
	v := call.Value()
	if v == nil {
		return nil
	}
	sig := call.Common().Signature()
	if sig.Results().Len() == 1 {
		if idx == 0 {
			return v
		}
		return nil
	}
	if v.Referrers() == nil {
		return nil
	}
	for _, r := range *v.Referrers() {
		if e, ok := r.(*ssa.Extract); ok && e.Index == idx {
			return e
		}
	}
	return nil
}

func errResult(call ssa.CallInstruction) ssa.Value {
	i := errorResultIndex(call.Common().Signature())
	if i < 0 {
		return nil
	}
	return resultValue(call, i)
}

func instrIndex(in ssa.Instruction) int {
	for i, x := range in.Block().Instrs {
		if x == in {
			return i
		}
	}
	return -1
}

// instrDominates: a is executed before b on every path from entry to b.
func instrDominates(a, b ssa.Instruction) bool {
	if a.Block() == b.Block() {
		return instrIndex(a) < instrIndex(b)
	}
	return a.Block().Dominates(b.Block())
}

func derefType(t types.Type) types.Type {
	if p, ok := t.Underlying().(*types.Pointer); ok {
		return p.Elem()
	}
	return t
}

func namedOf(t types.Type) *types.Named {
	t = derefType(t)
	n, _ := t.(*types.Named)
	return n
}

// fieldVar returns the struct field selected by a FieldAddr or Field instruction.
func fieldVar(v ssa.Value) *types.Var {
	switch x := v.(type) {
	case *ssa.FieldAddr:
		st, ok := derefType(x.X.Type()).Underlying().(*types.Struct)
		if !ok {
			return nil
		}
		return st.Field(x.Field)
	case *ssa.Field:
		st, ok := x.X.Type().Underlying().(*types.Struct)
		if !ok {
			return nil
		}
		return st.Field(x.Field)
	}
	return nil
}

// loadedField: v is `*(&x.f)` (a load of field f) or x.f on a struct value; returns f and x.
func loadedField(v ssa.Value) (*types.Var, ssa.Value) {
	switch x := v.(type) {
	case *ssa.UnOp:
		if x.Op == token.MUL {
			if fa, ok := x.X.(*ssa.FieldAddr); ok {
				return fieldVar(fa), fa.X
			}
		}
	case *ssa.Field:
		return fieldVar(x), x.X
	}
	return nil, nil
}

// methodMatches: the call is an invoke of interface method m (by name and identical
// signature on an interface that has it), or a static call of a concrete method that
// implements m for the interface it belongs to.
func callsIfaceMethod(cc *ssa.CallCommon, m *types.Func) bool {
	if cc == nil {
		return false
	}
	if cc.IsInvoke() {
		if cc.Method == m {
			return true
		}
		return cc.Method.Name() == m.Name() && types.Identical(cc.Method.Type().(*types.Signature).Params(), m.Type().(*types.Signature).Params()) &&
			types.Identical(cc.Method.Type().(*types.Signature).Results(), m.Type().(*types.Signature).Results()) && ifaceHasMethod(cc.Value.Type(), m)
	}
	callee := cc.StaticCallee()
	if callee == nil || callee.Signature.Recv() == nil || callee.Name() != m.Name() {
		return false
	}
	it := recvInterface(m)
	if it == nil {
		return false
	}
	rt := callee.Signature.Recv().Type()
	return types.Implements(rt, it) || types.Implements(types.NewPointer(rt), it)
}

func recvInterface(m *types.Func) *types.Interface {
	sig := m.Type().(*types.Signature)
	if sig.Recv() == nil {
		return nil
	}
	it, _ := sig.Recv().Type().Underlying().(*types.Interface)
	return it
}

func ifaceHasMethod(t types.Type, m *types.Func) bool {
	it, ok := t.Underlying().(*types.Interface)
	if !ok {
		return false
	}
	want := recvInterface(m)
	if want == nil {
		return false
	}
	// t must provide every method of the interface m belongs to (t is that interface or a superset)
	_ = it
	return types.Implements(t, want)
}

// isPkgFunc: cc statically calls package-level function pkg.name (or method recvType.name when name has a dot).
func isPkgFunc(cc *ssa.CallCommon, pkg, name string) bool {
	f := staticCallee(cc)
	if f == nil {
		return false
	}
	return isFuncNamed(f, pkg, name)
}

func isFuncNamed(f *ssa.Function, pkg, name string) bool {
	if f == nil || f.Pkg == nil || f.Pkg.Pkg.Path() != pkg {
		return false
	}
	if i := strings.Index(name, "."); i >= 0 {
		recv := f.Signature.Recv()
		if recv == nil {
			return false
		}
		n := namedOf(recv.Type())
		return n != nil && n.Obj().Name() == name[:i] && f.Name() == name[i+1:]
	}
	return f.Signature.Recv() == nil && f.Name() == name
}

// builtinName returns the name of the builtin called, or "".
func builtinName(cc *ssa.CallCommon) string {
	if cc == nil {
		return ""
	}
	if b, ok := cc.Value.(*ssa.Builtin); ok {
		return b.Name()
	}
	return ""
}

// eachInstr visits all instructions of f.
func eachInstr(f *ssa.Function, visit func(ssa.Instruction)) {
	for _, b := range f.Blocks {
		for _, in := range b.Instrs {
			visit(in)
		}
	}
}

// anonFuncsOf returns f and all functions nested in it.
func withAnon(f *ssa.Function) []*ssa.Function {
	rv := []*ssa.Function{f}
	for _, a := range f.AnonFuncs {
		rv = append(rv, withAnon(a)...)
	}
	return rv
}

// blockReach computes, for every block, the set of blocks reachable from it (reflexive).
func blockReach(f *ssa.Function) [][]bool {
	n := len(f.Blocks)
	r := make([][]bool, n)
	for i := range r {
		r[i] = make([]bool, n)
		var stack []*ssa.BasicBlock
		stack = append(stack, f.Blocks[i])
		r[i][i] = true
		for len(stack) > 0 {
			b := stack[len(stack)-1]
			stack = stack[:len(stack)-1]
			for _, s := range b.Succs {
				if !r[i][s.Index] {
					r[i][s.Index] = true
					stack = append(stack, s)
				}
			}
		}
	}
	return r
}

// stripConv looks through value-preserving conversions.
func stripConv(v ssa.Value) ssa.Value {
	for {
		switch x := v.(type) {
		case *ssa.ChangeType:
			v = x.X
		case *ssa.ChangeInterface:
			v = x.X
		case *ssa.Convert:
			v = x.X
		default:
			return v
		}
	}
}

// enclosingTop returns the outermost (declared) function of f.
func enclosingTop(f *ssa.Function) *ssa.Function {
	for f.Parent() != nil {
		f = f.Parent()
	}
	return f
}

var nonNilMemo = map[*ssa.Function]bool{}

// alwaysNonNil: a single-result function every return of which yields a freshly
// allocated (hence non-nil) value - the constructor idiom `return &T{...}`.
func alwaysNonNil(fn *ssa.Function) bool {
	if fn == nil || fn.Blocks == nil || fn.Signature.Results().Len() != 1 {
		return false
	}
	if r, ok := nonNilMemo[fn]; ok {
		return r
	}
	nonNilMemo[fn] = false
	ok := true
	n := 0
	eachInstr(fn, func(in ssa.Instruction) {
		r, isRet := in.(*ssa.Return)
		if !isRet {
			return
		}
		n++
		switch v := r.Results[0].(type) {
		case *ssa.Alloc, *ssa.MakeMap, *ssa.MakeChan, *ssa.MakeSlice, *ssa.MakeClosure:
		case *ssa.MakeInterface:
			_ = v
		default:
			ok = false
		}
	})
	nonNilMemo[fn] = ok && n > 0
	return ok && n > 0
}

// isFreshLocal: v denotes an object allocated in the same function (a composite literal
// or new), possibly reached through a local cell or phi that only ever holds such objects.
func isFreshLocal(v ssa.Value) bool {
	return isFreshLocalD(v, map[ssa.Value]bool{})
}

func isFreshLocalD(v ssa.Value, seen map[ssa.Value]bool) bool {
	if seen[v] {
		return true
	}
	seen[v] = true
	switch x := v.(type) {
	case *ssa.Alloc:
		return true
	case *ssa.MakeSlice, *ssa.MakeMap, *ssa.MakeChan:
		return true
	case *ssa.ChangeType:
		return isFreshLocalD(x.X, seen)
	case *ssa.Phi:
		for _, e := range x.Edges {
			if !isFreshLocalD(e, seen) {
				return false
			}
		}
		return true
	case *ssa.UnOp:
		if x.Op != token.MUL {
			return false
		}
		cell, ok := x.X.(*ssa.Alloc)
		if !ok || cell.Referrers() == nil {
			return false
		}
		n := 0
		for _, r := range *cell.Referrers() {
			if st, ok := r.(*ssa.Store); ok && st.Addr == cell {
				n++
				if !isFreshLocalD(st.Val, seen) {
					return false
				}
			}
		}
		return n > 0
	}
	return false
}
