package main

import (
	"fmt"
	"go/token"
	"go/types"

	"golang.org/x/tools/go/ssa"
)

func init() {
	registerProperty(&PropertyInfo{
		ID:    "C06",
		Title: "Background merges and persists never change logical content",
		Rules: []string{"C06.R1", "C06.R2", "C06.R3", "C06.R4", "C06.R5", "C06.R6", "C06.R7", "C01.R2", "C02.R5", "C04.R2"},
		Decides: "the data-flow obligations of the three introductions: every introduction carries the deleted sets of the root it obtains itself (the CURRENT root), including the persist swap (C01.R2 + C06.R1); in the merge introduction every current root element is run through the per-segment processing together with one fresh accumulator bitmap, that processing adds to the accumulator exactly the new doc numbers oldNewDocNums[segment][d] for d ranging over the deletions of the CURRENT element minus (when present) the deletions known at merge time, segments that vanished from the root meanwhile have all their live docs mapped and added, the accumulator becomes the merged segment's deleted set, and the merged segment is listed only when it has more docs than deletions (otherwise 'skipped' is reported); at every merge call site the list of segments and the list of drops are appended to in the same block from the same element; every path of the merge introduction answers the requester exactly once and the requesters' receives are guarded by a successful hand-over. the equivalent snapshot persisted after an in-memory merge carries no element or deleted set of a later root (C02.R5, C01.R2). doc-number ranges are bounded by the segment's full Count().",
		NotCovered: "that the doc-number maps produced by the segment library are right; which segments the planner picks (C19).",
	})
	registerRule(&RuleInfo{ID: "C06.R1", Title: "introductions work on the root they obtain themselves", Floor: 2, Run: ruleC06R1,
		Covers: "origin of the snapshot whose elements are carried, in every function that swaps the root with a fresh snapshot"})
	registerRule(&RuleInfo{ID: "C06.R2", Title: "deletes that raced with a merge are translated onto the merged segment", Floor: 2, Run: ruleC06R2,
		Covers: "data flow into the merge accumulator bitmap in the merge introduction and its per-segment helper"})
	registerRule(&RuleInfo{ID: "C06.R5", Title: "snapshot offsets are cumulative FULL segment sizes", Floor: 2, Run: ruleC06R5,
		Covers: "every value stored/appended into Snapshot.offsets that is a loop-carried running sum"})
	registerRule(&RuleInfo{ID: "C06.R3", Title: "what is merged is what was live: segments and drops are built in lockstep", Floor: 2, Run: ruleC06R3,
		Covers: "every append to a []*roaring.Bitmap drops list in package index"})
	registerRule(&RuleInfo{ID: "C06.R4", Title: "every merge request is answered; requesters wait only after a successful hand-over", Floor: 2, Run: ruleC06R4,
		Covers: "path-sensitive typestate of the merge introduction and of both requesters"})
}

// swapFunctions: functions that hand a snapshot allocated by themselves to the root swap.
func swapFunctions(p *Program) []*ssa.Function {
	a := p.Idx()
	var rv []*ssa.Function
	for _, fn := range p.FuncsIn(pkgIndex) {
		ok := false
		eachInstr(fn, func(in ssa.Instruction) {
			ci, isCall := in.(*ssa.Call)
			if !isCall || ci.Common().StaticCallee() == nil || !isRootSwapper(ci.Common().StaticCallee(), a) {
				return
			}
			for _, arg := range ci.Common().Args {
				if namedOf(arg.Type()) == a.Snapshot && isFreshLocal(arg) {
					ok = true
				}
			}
		})
		if ok {
			rv = append(rv, fn)
		}
	}
	return rv
}

func ruleC06R1(c *Ctx) {
	a := c.Idx()
	for _, fn := range swapFunctions(c.Program) {
		name := FuncName(fn)
		// every load of Snapshot.segment / offsets that is not on a fresh snapshot must be on the root obtained here
		var bad []string
		n := 0
		eachInstr(fn, func(in ssa.Instruction) {
			u, ok := in.(*ssa.UnOp)
			if !ok || u.Op != token.MUL {
				return
			}
			fa, ok := u.X.(*ssa.FieldAddr)
			if !ok || fieldVar(fa) != a.SnapSegment && fieldVar(fa) != a.SnapOffsets {
				return
			}
			if isFreshOwned(fa.X, 0) {
				return
			}
			n++
			fromGetter := dependsOn(fa.X, func(y ssa.Value) bool {
				ci, isCall := y.(*ssa.Call)
				return isCall && ci.Common().StaticCallee() != nil && readsRootField(ci.Common().StaticCallee(), a)
			})
			if !fromGetter {
				bad = append(bad, c.Pos(in.Pos()))
			}
		})
		if n == 0 {
			continue // swaps in a snapshot that is not derived from another one (recovery)
		}
		c.Check(len(bad) == 0, "segments are carried from the current root in "+name, c.Pos(fn.Pos()),
			fmt.Sprintf("%d reads of a non-fresh snapshot's segment list, all on the snapshot returned by the root getter in this function", n),
			fmt.Sprintf("the new root is assembled from a snapshot that is not the one obtained from the root getter here (at %v): deletions and segments introduced meanwhile are lost", bad))
	}
}

// mergeIntroFunctions: swap functions with a *segmentMerge parameter.
func mergeIntroFunctions(p *Program) []*ssa.Function {
	a := p.Idx()
	var rv []*ssa.Function
	for _, fn := range swapFunctions(p) {
		for _, prm := range fn.Params {
			if namedOf(prm.Type()) == a.SegMerge {
				rv = append(rv, fn)
			}
		}
	}
	return rv
}

func ruleC06R2(c *Ctx) {
	a := c.Idx()
	fOld := c.Field(pkgIndex, "segmentMerge", "old")
	fMap := c.Field(pkgIndex, "segmentMerge", "oldNewDocNums")
	fNew := c.Field(pkgIndex, "segmentMerge", "new")
	for _, fn := range mergeIntroFunctions(c.Program) {
		name := FuncName(fn)
		// (i) the per-segment helper is called with the current element and one fresh accumulator
		var helperCall *ssa.Call
		eachInstr(fn, func(in ssa.Instruction) {
			ci, ok := in.(*ssa.Call)
			if !ok || ci.Common().StaticCallee() == nil {
				return
			}
			callee := ci.Common().StaticCallee()
			if callee.Signature.Recv() != nil && namedOf(callee.Signature.Recv().Type()) == a.SegMerge {
				hasAcc, hasElem := false, false
				for _, arg := range ci.Common().Args[1:] {
					if isBitmapPtr(arg.Type()) {
						hasAcc = true
					}
					if namedOf(arg.Type()) == a.SegSnap {
						hasElem = true
					}
				}
				if hasAcc && hasElem {
					helperCall = ci
				}
			}
		})
		if helperCall == nil {
			c.Violate("per-segment processing of the merge in "+name, c.Pos(fn.Pos()), "the merge introduction never runs the current root elements through the merge's per-segment processing")
			continue
		}
		var acc ssa.Value
		elemOK, idOK := false, false
		var elemPath string
		for _, arg := range helperCall.Common().Args[1:] {
			switch {
			case isBitmapPtr(arg.Type()):
				acc = arg
			case namedOf(arg.Type()) == a.SegSnap:
				if p := segElemPath(arg, a); p != "" {
					elemOK, elemPath = true, p
				}
			}
		}
		for _, arg := range helperCall.Common().Args[1:] {
			if f, base := loadedField(arg); f == a.SSID && segElemPath(base, a) == elemPath && elemPath != "" {
				idOK = true
			}
		}
		inLoop := enclosingLoopHeader(helperCall.Block()) != nil
		c.Check(elemOK && idOK && inLoop && acc != nil && isFreshBitmap(acc, map[ssa.Value]bool{}), "current root elements are processed with a fresh accumulator in "+name, c.Pos(helperCall.Pos()),
			"called in the loop over the current root with (elem.id, elem, accumulator created here)",
			fmt.Sprintf("element is a current root element: %v, id is that element's id: %v, in a loop: %v, accumulator fresh: %v", elemOK, idOK, inLoop, acc != nil && isFreshBitmap(acc, map[ssa.Value]bool{})))

		// (ii) inside the helper: every Add derives from oldNewDocNums[segmentID][d], d from now.deleted (AndNot at-merge deleted)
		helper := helperCall.Common().StaticCallee()
		c.checkMergeHelper(helper, a, fOld, fMap)

		// (iii) leftover old entries: all live docs mapped and added to the same accumulator
		leftoverOK := false
		// the translation loop may live in this function or in a helper that receives the accumulator
		type accSite struct {
			f   *ssa.Function
			acc ssa.Value
		}
		sites := []accSite{{fn, acc}}
		eachInstr(fn, func(in ssa.Instruction) {
			ci, ok := in.(*ssa.Call)
			if !ok || ci == helperCall || ci.Common().StaticCallee() == nil || ci.Common().StaticCallee().Blocks == nil {
				return
			}
			callee := ci.Common().StaticCallee()
			for i, arg := range ci.Common().Args {
				if arg == acc && i < len(callee.Params) {
					sites = append(sites, accSite{callee, callee.Params[i]})
				}
			}
		})
		for _, site := range sites {
			site := site
			eachInstr(site.f, func(in ssa.Instruction) {
				ci, ok := in.(*ssa.Call)
				if !ok || ci.Common().StaticCallee() == nil || ci.Common().StaticCallee().Name() != "Add" || !isBitmapPtr(ci.Common().Args[0].Type()) {
					return
				}
				if ci.Common().Args[0] != site.acc {
					return
				}
				v := ci.Common().Args[1]
				viaMap := dependsOnField(v, fMap)
				viaLive := dependsOn(v, func(y ssa.Value) bool {
					c2, isCall := y.(*ssa.Call)
					if !isCall || c2.Common().StaticCallee() == nil {
						return false
					}
					f2 := c2.Common().StaticCallee()
					// the live-docs bitmap of an entry of merge.old
					return f2.Signature.Recv() != nil && namedOf(f2.Signature.Recv().Type()) == a.SegSnap && isBitmapPtr(c2.Type()) && dependsOnField(c2.Common().Args[0], fOld)
				})
				if viaMap && viaLive {
					leftoverOK = true
				}
			})
		}
		c.Check(leftoverOK, "segments that vanished during the merge have all their live docs marked deleted in "+name, c.Pos(fn.Pos()),
			"for every entry left in merge.old: accumulator.Add(oldNewDocNums[id][d]) for d over its live doc numbers",
			"documents of a segment that was fully obsoleted while the merge ran are not marked deleted in the merged segment: deleted/updated documents reappear")

		// (v) merged segment listed only when Count() > accumulator cardinality; otherwise skipped is reported
		var mergedLit *ssa.Alloc
		eachInstr(fn, func(in ssa.Instruction) {
			al, ok := in.(*ssa.Alloc)
			if !ok || al.Comment != "complit" || namedOf(al.Type()) != a.SegSnap {
				return
			}
			for _, st := range fieldStoresOfLiteral(al, a.SSSegment) {
				if loadsField(st.Val, fNew) {
					mergedLit = al
				}
			}
		})
		if mergedLit == nil {
			c.Violate("merged segment is listed only when something live remains in "+name, c.Pos(fn.Pos()), "the merged segment is never listed in the new root")
		} else {
			guard := false
			eachInstr(fn, func(in ssa.Instruction) {
				iff, ok := in.(*ssa.If)
				if !ok {
					return
				}
				b, ok := iff.Cond.(*ssa.BinOp)
				if !ok || b.Op != token.GTR && b.Op != token.LSS {
					return
				}
				big, small := b.X, b.Y
				if b.Op == token.LSS {
					big, small = b.Y, b.X
				}
				isCount := dependsOn(big, func(y ssa.Value) bool {
					c2, ok := y.(*ssa.Call)
					return ok && c2.Common().IsInvoke() && c2.Common().Method.Name() == "Count" && dependsOnField(c2.Common().Value, fNew)
				})
				isCard := dependsOn(small, func(y ssa.Value) bool {
					c2, ok := y.(*ssa.Call)
					return ok && c2.Common().StaticCallee() != nil && c2.Common().StaticCallee().Name() == "GetCardinality" && c2.Common().Args[0] == acc
				})
				if isCount && isCard && edgeDominates(iff, 0, mergedLit.Block()) {
					guard = true
				}
			})
			// deleted of the merged literal is the accumulator
			accIsDeleted := false
			for _, st := range fieldStoresOfLiteral(mergedLit, a.SSDeleted) {
				if st.Val == acc {
					accIsDeleted = true
				}
			}
			c.Check(guard && accIsDeleted, "merged segment is listed only when something live remains in "+name, c.Pos(mergedLit.Pos()),
				"listed on the edge new.Count() > accumulator.GetCardinality(), with the accumulator as its deleted set",
				fmt.Sprintf("guard new.Count() > deleted cardinality: %v; accumulator is the deleted set: %v", guard, accIsDeleted))
		}
	}
}

func (c *Ctx) checkMergeHelper(helper *ssa.Function, a *IdxAnchors, fOld, fMap *types.Var) {
	name := FuncName(helper)
	var accParam, nowParam, idParam *ssa.Parameter
	for _, p := range helper.Params[1:] {
		switch {
		case isBitmapPtr(p.Type()):
			accParam = p
		case namedOf(p.Type()) == a.SegSnap:
			nowParam = p
		case types.Identical(p.Type().Underlying(), types.Typ[types.Uint64]):
			idParam = p
		}
	}
	if accParam == nil || nowParam == nil || idParam == nil {
		c.Undecided("merge helper signature "+name, c.Pos(helper.Pos()), "expected (id uint64, now *segmentSnapshot, acc *roaring.Bitmap)")
		return
	}
	nAdd := 0
	var problems []string
	eachInstr(helper, func(in ssa.Instruction) {
		ci, ok := in.(*ssa.Call)
		if !ok || ci.Common().StaticCallee() == nil || !isBitmapPtr(ci.Common().Args[0].Type()) || !bitmapMutators[ci.Common().StaticCallee().Name()] {
			return
		}
		if ci.Common().Args[0] != ssa.Value(accParam) {
			return
		}
		nAdd++
		v := ci.Common().Args[1]
		// new doc number looked up in oldNewDocNums[segmentID]
		viaMap := dependsOn(v, func(y ssa.Value) bool {
			lk, ok := y.(*ssa.Lookup)
			return ok && loadsField(lk.X, fMap) && lk.Index == ssa.Value(idParam)
		})
		// the old doc number iterates the deletions of the CURRENT element
		nowDeleted := func(y ssa.Value) bool {
			f, base := loadedField(y)
			return f == a.SSDeleted && base == ssa.Value(nowParam)
		}
		viaNow := dependsOn(v, nowDeleted)
		if !viaMap {
			problems = append(problems, "a value added to the accumulator is not oldNewDocNums[segmentID][...]")
		}
		if !viaNow {
			problems = append(problems, "the deletions translated are not those of the current element")
		}
	})
	// the at-merge deletions are subtracted: AndNot(now.deleted, atMerge.deleted)
	andNotOK := false
	eachInstr(helper, func(in ssa.Instruction) {
		ci, ok := in.(*ssa.Call)
		if !ok || !isPkgFunc(ci.Common(), roaringPkg, "AndNot") {
			return
		}
		f0, b0 := loadedField(ci.Common().Args[0])
		f1, b1 := loadedField(ci.Common().Args[1])
		if f0 == a.SSDeleted && b0 == ssa.Value(nowParam) && f1 == a.SSDeleted && dependsOnField(b1, fOld) {
			andNotOK = true
		}
	})
	if !andNotOK {
		problems = append(problems, "the deletions already known at merge time are not subtracted with roaring.AndNot(now.deleted, atMerge.deleted)")
	}
	// the translation must also run when the segment had NO deletions at merge time
	eachInstr(helper, func(in ssa.Instruction) {
		iff, ok := in.(*ssa.If)
		if !ok {
			return
		}
		b, ok := iff.Cond.(*ssa.BinOp)
		if !ok || b.Op != token.NEQ && b.Op != token.EQL {
			return
		}
		var other ssa.Value
		if isNilConst(b.Y) {
			other = b.X
		} else if isNilConst(b.X) {
			other = b.Y
		} else {
			return
		}
		f, base := loadedField(other)
		if f != a.SSDeleted || base == ssa.Value(nowParam) || !dependsOnField(base, fOld) {
			return
		}
		nonNilEdge := 0
		if b.Op == token.EQL {
			nonNilEdge = 1
		}
		eachInstr(helper, func(x ssa.Instruction) {
			ci, ok := x.(*ssa.Call)
			if !ok || ci.Common().StaticCallee() == nil || !isBitmapPtr(ci.Common().Args[0].Type()) || ci.Common().Args[0] != ssa.Value(accParam) {
				return
			}
			if edgeDominates(iff, nonNilEdge, ci.Block()) {
				problems = append(problems, "deletions that raced with the merge are translated only when the segment already had deletions at merge time (the update sits behind atMerge.deleted != nil)")
			}
		})
	})
	if nAdd == 0 {
		problems = append(problems, "nothing is added to the accumulator")
	}
	// the processed segment is removed from merge.old (so that leftovers are exactly the vanished ones)
	del := false
	eachInstr(helper, func(in ssa.Instruction) {
		if cc := callOf(in); cc != nil && builtinName(cc) == "delete" && loadsField(cc.Args[0], fOld) && cc.Args[1] == ssa.Value(idParam) {
			del = true
		}
	})
	if !del {
		problems = append(problems, "processed segments are not removed from merge.old")
	}
	c.Check(len(problems) == 0, "merge helper translates the raced deletions in "+name, c.Pos(helper.Pos()),
		fmt.Sprintf("%d accumulator update(s), each oldNewDocNums[id][d] with d from now.deleted AndNot atMerge.deleted; processed entry removed from old", nAdd), uniqJoin(problems))
}

// ruleC06R5: the offsets of a snapshot are the running sum of the FULL document counts of
// the segments listed before (doc numbers inside a segment include deleted documents).
func ruleC06R5(c *Ctx) {
	a := c.Idx()
	n := 0
	// functions whose []uint64 result is stored as a snapshot's offsets: the table is built there
	builders := map[*ssa.Function]bool{}
	for _, fn := range c.FuncsIn(pkgIndex) {
		for _, st := range storesToField(fn, a.SnapOffsets) {
			if call, ok := st.Val.(*ssa.Call); ok {
				if cal := staticCallee(call.Common()); cal != nil && c.InRepo(cal) {
					builders[cal] = true
				}
			}
		}
	}
	isU64Slice := func(t types.Type) bool {
		sl, ok := t.Underlying().(*types.Slice)
		return ok && types.Identical(sl.Elem(), types.Typ[types.Uint64])
	}
	for _, fn := range c.FuncsIn(pkgIndex) {
		// values appended / stored into Snapshot.offsets
		var offVals []ssa.Value
		eachInstr(fn, func(in ssa.Instruction) {
			switch x := in.(type) {
			case *ssa.Store:
				if ia, ok := x.Addr.(*ssa.IndexAddr); ok {
					if f, _ := loadedField(ia.X); f == a.SnapOffsets || (builders[fn] && isU64Slice(ia.X.Type())) {
						offVals = append(offVals, x.Val)
					}
					if al, ok := ia.X.(*ssa.Alloc); ok && al.Comment == "varargs" && types.Identical(x.Val.Type(), types.Typ[types.Uint64]) {
						// element of an append(...offsets, v)
						for _, r := range *al.Referrers() {
							if sl, ok := r.(*ssa.Slice); ok && sl.Referrers() != nil {
								for _, rr := range *sl.Referrers() {
									if call, ok := rr.(*ssa.Call); ok && builtinName(call.Common()) == "append" {
										if f, _ := loadedField(call.Common().Args[0]); f == a.SnapOffsets || (builders[fn] && isU64Slice(call.Type())) {
											offVals = append(offVals, x.Val)
										}
									}
								}
							}
						}
					}
				}
			}
		})
		seenPhi := map[*ssa.Phi]bool{}
		for _, v := range offVals {
			ph, ok := v.(*ssa.Phi)
			if !ok || seenPhi[ph] {
				continue // copied offsets (persist swap) or constants
			}
			seenPhi[ph] = true
			n++
			key := fmt.Sprintf("offsets accumulate full segment sizes in %s (#%d)", FuncName(fn), n)
			var problems []string
			var visit func(p *ssa.Phi, seen map[*ssa.Phi]bool)
			visit = func(p *ssa.Phi, seen map[*ssa.Phi]bool) {
				if seen[p] {
					return
				}
				seen[p] = true
				for _, e := range p.Edges {
					switch x := e.(type) {
					case *ssa.Phi:
						visit(x, seen)
					case *ssa.Const:
					case *ssa.BinOp:
						if x.Op != token.ADD {
							problems = append(problems, "the running offset is not advanced by addition")
							continue
						}
						if xp, ok := x.X.(*ssa.Phi); ok {
							visit(xp, seen)
						}
						call, isCall := x.Y.(*ssa.Call)
						full := isCall && call.Common().IsInvoke() && call.Common().Method.Name() == "Count" && namedOf(call.Common().Value.Type()) != nil &&
							namedOf(call.Common().Value.Type()).Obj().Name() == "Segment"
						if !full {
							problems = append(problems, "the running offset is advanced at "+c.Pos(x.Pos())+" by something other than the full document count of the listed segment (Segment.Count()): document numbers of the following segments overlap with this one as soon as it has deletions")
						}
					default:
						problems = append(problems, "unexpected source of the running offset")
					}
				}
			}
			visit(ph, map[*ssa.Phi]bool{})
			c.Check(len(problems) == 0, key, c.Pos(ph.Pos()), "offset(k+1) = offset(k) + segment(k).Count() including deleted documents", uniqJoin(problems))
		}
	}
}

func ruleC06R3(c *Ctx) {
	a := c.Idx()
	segIface := c.Named("github.com/blugelabs/bluge_segment_api", "Segment")
	n := 0
	for _, fn := range c.FuncsIn(pkgIndex) {
		// only functions that collect segments to merge
		collects := false
		eachInstr(fn, func(in ssa.Instruction) {
			if ci, ok := in.(*ssa.Call); ok && builtinName(ci.Common()) == "append" {
				if s2, ok := ci.Type().Underlying().(*types.Slice); ok && namedOf(s2.Elem()) == segIface {
					collects = true
				}
			}
		})
		if !collects {
			continue
		}
		eachInstr(fn, func(in ssa.Instruction) {
			ci, ok := in.(*ssa.Call)
			if !ok || builtinName(ci.Common()) != "append" {
				return
			}
			sl, ok := ci.Type().Underlying().(*types.Slice)
			if !ok || !isBitmapPtr(sl.Elem()) {
				return
			}
			n++
			key := fmt.Sprintf("drops append #%d in %s", n, FuncName(fn))
			// the appended value: deleted of some element X
			var elemBase ssa.Value
			dependsOn(ci.Common().Args[1], func(y ssa.Value) bool {
				if f, base := loadedField(y); f == a.SSDeleted {
					elemBase = base
					return true
				}
				return false
			})
			if elemBase == nil {
				c.Violate(key, c.Pos(in.Pos()), "the drops entry is not the deleted set of a segment snapshot")
				return
			}
			// partner: an append to a []segment.Segment in the same block whose value derives from the same element
			partner := false
			for _, bi := range ci.Block().Instrs {
				c2, ok := bi.(*ssa.Call)
				if !ok || builtinName(c2.Common()) != "append" {
					continue
				}
				s2, ok := c2.Type().Underlying().(*types.Slice)
				if !ok || namedOf(s2.Elem()) != segIface {
					continue
				}
				if dependsOn(c2.Common().Args[1], func(y ssa.Value) bool {
					f, base := loadedField(y)
					return f == a.SSSegment && sameBase(base, elemBase)
				}) {
					partner = true
				}
			}
			c.Check(partner, key, c.Pos(in.Pos()), "in the same block the same element's segment is appended to the list of segments to merge",
				"segments and drops are not appended in lockstep from the same element: the merge would drop the wrong documents")
		})
	}
}

func ruleC06R4(c *Ctx) {
	a := c.Idx()
	fNotify := c.Field(pkgIndex, "segmentMerge", "notifyCh")
	const (
		fSent uint64 = 1 << iota
		fClosed
	)
	for _, fn := range mergeIntroFunctions(c.Program) {
		name := FuncName(fn)
		var problems []string
		ex := &Explorer{Fn: fn}
		ex.OnInstr = func(in ssa.Instruction, st *PState) bool {
			switch x := in.(type) {
			case *ssa.Send:
				if dependsOnField(x.Chan, fNotify) {
					if st.Flags&fSent != 0 {
						problems = append(problems, "two answers are sent on notifyCh (the second blocks forever)")
					}
					st.Flags |= fSent
				}
			case *ssa.Call:
				if builtinName(x.Common()) == "close" && dependsOnField(x.Common().Args[0], fNotify) {
					st.Flags |= fClosed
				}
			}
			return true
		}
		ex.OnReturn = func(r *ssa.Return, st *PState) {
			if st.Flags&(fSent|fClosed) == 0 {
				problems = append(problems, "a path returns at "+c.Pos(r.Pos())+" without answering on notifyCh: the merger/persister blocks forever")
			}
		}
		ex.Run()
		c.Check(len(problems) == 0 && !ex.Exceeded, "merge requester is answered on every path in "+name, c.Pos(fn.Pos()), "every path sends the status on notifyCh (or closes it) exactly once", uniqJoin(problems))
	}
	// requesters: receive on notifyCh only after the select chose the hand-over
	for _, fn := range c.FuncsIn(pkgIndex) {
		var recvs []*ssa.UnOp
		eachInstr(fn, func(in ssa.Instruction) {
			if u, ok := in.(*ssa.UnOp); ok && u.Op == token.ARROW && dependsOnField(u.X, fNotify) {
				recvs = append(recvs, u)
			}
		})
		for i, rcv := range recvs {
			key := fmt.Sprintf("wait for merge introduction #%d in %s", i+1, FuncName(fn))
			// find the select that sends a *segmentMerge
			var sel *ssa.Select
			sendIdx := -1
			eachInstr(fn, func(in ssa.Instruction) {
				if s, ok := in.(*ssa.Select); ok {
					for k, stt := range s.States {
						if stt.Dir == types.SendOnly && chanElemNamed(stt.Chan.Type()) == a.SegMerge {
							sel, sendIdx = s, k
						}
					}
				}
			})
			if sel == nil {
				// a plain send also qualifies if it dominates the receive
				dom := false
				eachInstr(fn, func(in ssa.Instruction) {
					if s, ok := in.(*ssa.Send); ok && chanElemNamed(s.Chan.Type()) == a.SegMerge && instrDominates(s, rcv) {
						dom = true
					}
				})
				c.Check(dom, key, c.Pos(rcv.Pos()), "dominated by the send of the request", "the requester waits for an answer to a request it may not have handed over")
				continue
			}
			// the index test for the send case
			idxVal := resultValue2(sel, 0)
			var test *ssa.BinOp
			if idxVal != nil && idxVal.Referrers() != nil {
				for _, r := range *idxVal.Referrers() {
					if b, ok := r.(*ssa.BinOp); ok && b.Op == token.EQL {
						if k, okc := constInt(b.Y); okc && int(k) == sendIdx {
							test = b
						}
					}
				}
			}
			if test == nil {
				c.Undecided(key, c.Pos(rcv.Pos()), "cannot find the select index test of the hand-over case")
				continue
			}
			bad := false
			ex := &Explorer{Fn: fn, Keep: map[ssa.Value]bool{test: true}}
			ex.OnInstr = func(in ssa.Instruction, st *PState) bool {
				if in == ssa.Instruction(rcv) && st.Eval(test) != TriYes {
					bad = true
				}
				return true
			}
			ex.Run()
			c.Check(!bad && !ex.Exceeded && instrDominates(sel, rcv), key, c.Pos(rcv.Pos()), "reached only through the select case that handed the request to the introducer",
				"the receive on notifyCh is reachable without the request having been handed over (e.g. after the close case): it blocks forever and Close never terminates")
		}
	}
}
