package main

import (
	"crypto/sha1"
	"encoding/hex"
	"encoding/json"
	"fmt"
	"os"
	"path/filepath"
	"sort"
	"strings"
)

type Verdict string

const (
	Discharged Verdict = "discharged"
	Violated   Verdict = "violated"
	Undecided  Verdict = "undecided"
)

// Obligation is one decided rule instance. Key = Rule | Construct (never a line number).
type Obligation struct {
	Rule      string  `json:"rule"`
	Construct string  `json:"construct"`
	Pos       string  `json:"pos"`
	Verdict   Verdict `json:"verdict"`
	Detail    string  `json:"detail,omitempty"`
	Config    string  `json:"config,omitempty"`
}

func (o Obligation) Key() string { return o.Rule + " | " + o.Construct }

// RuleInfo is the static description of a rule.
type RuleInfo struct {
	ID     string // e.g. "C13.R1"
	Title  string
	Floor  int // minimum number of instances confirmed by hand on the pinned tree
	Run    func(c *Ctx)
	Covers string // what the rule decides, one sentence (goes into evidence)
}

// Ctx is handed to a rule: the program plus the obligation sink.
type Ctx struct {
	*Program
	rule *RuleInfo
	sink *[]Obligation
	note *[]string
}

func (c *Ctx) add(v Verdict, construct, pos, detail string) {
	*c.sink = append(*c.sink, Obligation{Rule: c.rule.ID, Construct: construct, Pos: pos, Verdict: v, Detail: detail, Config: c.Config.String()})
}
func (c *Ctx) OK(construct, pos, detail string)      { c.add(Discharged, construct, pos, detail) }
func (c *Ctx) Violate(construct, pos, detail string) { c.add(Violated, construct, pos, detail) }
func (c *Ctx) Undecided(construct, pos, detail string) {
	c.add(Undecided, construct, pos, detail)
}
func (c *Ctx) Check(ok bool, construct, pos, okDetail, badDetail string) {
	if ok {
		c.OK(construct, pos, okDetail)
	} else {
		c.Violate(construct, pos, badDetail)
	}
}
func (c *Ctx) Note(format string, a ...interface{}) {
	*c.note = append(*c.note, c.rule.ID+": "+fmt.Sprintf(format, a...))
}

// runRule executes one rule with panic containment: an unresolved anchor or an analysis
// panic is an undecided obligation (never a pass).
func runRule(p *Program, r *RuleInfo, sink *[]Obligation, notes *[]string) {
	c := &Ctx{Program: p, rule: r, sink: sink, note: notes}
	defer func() {
		if rec := recover(); rec != nil {
			if u, ok := rec.(unresolvedAnchor); ok {
				c.Undecided("anchor "+u.what, "-", u.Error())
				return
			}
			c.Undecided("analysis panic", "-", fmt.Sprintf("PANIC %v", rec))
			if os.Getenv("VERIF_DEBUG") != "" {
				panic(rec)
			}
		}
	}()
	r.Run(c)
}

// ---- known findings -----------------------------------------------------------

type KnownFinding struct {
	Property   string   `json:"property"`
	Properties []string `json:"properties,omitempty"` // further properties whose checks include the same rule
	Rule       string   `json:"rule"`
	Construct  string   `json:"construct"`
	Status     string   `json:"status"` // "known" | "fixed"
	Commit     string   `json:"commit,omitempty"`
	What       string   `json:"what"`
}

func loadKnownFindings(path string) ([]KnownFinding, error) {
	b, err := os.ReadFile(path)
	if err != nil {
		if os.IsNotExist(err) {
			return nil, nil
		}
		return nil, err
	}
	var kf struct {
		Findings []KnownFinding `json:"findings"`
	}
	if err := json.Unmarshal(b, &kf); err != nil {
		return nil, err
	}
	return kf.Findings, nil
}

func matchKnown(kfs []KnownFinding, o Obligation) *KnownFinding {
	for i := range kfs {
		k := &kfs[i]
		if k.Status != "known" {
			continue
		}
		if k.Rule == o.Rule && k.Construct == o.Construct {
			return k
		}
	}
	return nil
}

// ---- evidence -------------------------------------------------------------------

type RuleCount struct {
	Rule       string `json:"rule"`
	Title      string `json:"title"`
	Decides    string `json:"decides"`
	Instances  int    `json:"instances"`
	Floor      int    `json:"floor"`
	Discharged int    `json:"discharged"`
	Violated   int    `json:"violated"`
	Undecided  int    `json:"undecided"`
}

type Evidence struct {
	PropertyID  string                 `json:"property_id"`
	Tier        string                 `json:"tier"`
	Seed        int                    `json:"seed"`
	Level       string                 `json:"level"`
	Coverage    map[string]interface{} `json:"coverage"`
	Assumptions []string               `json:"assumptions"`
	WallS       float64                `json:"wall_s"`
	Violations  int                    `json:"violations"`
}

func writeJSON(path string, v interface{}) error {
	if err := os.MkdirAll(filepath.Dir(path), 0o755); err != nil {
		return err
	}
	b, err := json.MarshalIndent(v, "", " ")
	if err != nil {
		return err
	}
	tmp := path + ".tmp"
	if err := os.WriteFile(tmp, append(b, '\n'), 0o644); err != nil {
		return err
	}
	return os.Rename(tmp, path)
}

func shortHash(s string) string {
	h := sha1.Sum([]byte(s))
	return hex.EncodeToString(h[:6])
}

func sortObligations(obs []Obligation) {
	sort.SliceStable(obs, func(i, j int) bool {
		if obs[i].Rule != obs[j].Rule {
			return ruleLess(obs[i].Rule, obs[j].Rule)
		}
		if obs[i].Construct != obs[j].Construct {
			return obs[i].Construct < obs[j].Construct
		}
		return obs[i].Config < obs[j].Config
	})
}

func ruleLess(a, b string) bool {
	pa, pb := strings.SplitN(a, ".R", 2), strings.SplitN(b, ".R", 2)
	if pa[0] != pb[0] {
		return pa[0] < pb[0]
	}
	if len(pa) == 2 && len(pb) == 2 {
		var x, y int
		fmt.Sscanf(pa[1], "%d", &x)
		fmt.Sscanf(pb[1], "%d", &y)
		if x != y {
			return x < y
		}
	}
	return a < b
}
