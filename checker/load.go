package main

import (
	"fmt"
	"go/token"
	"go/types"
	"os"
	"sort"
	"strings"

	"golang.org/x/tools/go/callgraph"
	"golang.org/x/tools/go/callgraph/cha"
	"golang.org/x/tools/go/callgraph/vta"
	"golang.org/x/tools/go/packages"
	"golang.org/x/tools/go/ssa"
	"golang.org/x/tools/go/ssa/ssautil"
)

const (
	modPath   = "github.com/blugelabs/bluge"
	pkgIndex  = modPath + "/index"
	pkgSearch = modPath + "/search"
)

// BuildConfig names one build configuration that is analysed.
type BuildConfig struct {
	GOOS, GOARCH string
}

func (b BuildConfig) String() string { return b.GOOS + "/" + b.GOARCH }

// Program is the resolved, type-checked program of one build configuration.
type Program struct {
	Repo   string
	Config BuildConfig
	Fset   *token.FileSet
	Pkgs   []*packages.Package // initial (bluge) packages
	All    map[string]*packages.Package
	SSA    *ssa.Program
	ssaPkg map[string]*ssa.Package

	cha   *callgraph.Graph
	vta   *callgraph.Graph
	light *LightCG
	idx   *IdxAnchors

	srcFuncs []*ssa.Function // all functions (incl. anonymous) of bluge packages
}

// LoadProgram loads /repo/... (non-test files) for one build configuration. overlay
// maps absolute file names to replacement contents (used for fixtures and in-memory
// mutants; nothing is ever written to the repository).
func LoadProgram(repo string, bc BuildConfig, overlay map[string][]byte, extraPatterns ...string) (*Program, error) {
	env := []string{}
	for _, e := range os.Environ() {
		if strings.HasPrefix(e, "GOWORK=") || strings.HasPrefix(e, "GOOS=") || strings.HasPrefix(e, "GOARCH=") ||
			strings.HasPrefix(e, "GOFLAGS=") || strings.HasPrefix(e, "GOPROXY=") || strings.HasPrefix(e, "GOSUMDB=") ||
			strings.HasPrefix(e, "GOTOOLCHAIN=") || strings.HasPrefix(e, "CGO_ENABLED=") {
			continue
		}
		env = append(env, e)
	}
	env = append(env, "GOWORK=off", "GOFLAGS=-mod=mod", "GOPROXY=off", "GOSUMDB=off", "GOTOOLCHAIN=local",
		"GOOS="+bc.GOOS, "GOARCH="+bc.GOARCH, "CGO_ENABLED=0")
	cfg := &packages.Config{
		Mode:    packages.LoadAllSyntax,
		Dir:     repo,
		Env:     env,
		Tests:   false,
		Overlay: overlay,
	}
	patterns := append([]string{"./..."}, extraPatterns...)
	pkgs, err := packages.Load(cfg, patterns...)
	if err != nil {
		return nil, fmt.Errorf("packages.Load: %w", err)
	}
	var errs []string
	packages.Visit(pkgs, nil, func(p *packages.Package) {
		for _, e := range p.Errors {
			errs = append(errs, e.Error())
		}
	})
	if len(errs) > 0 {
		sort.Strings(errs)
		if len(errs) > 10 {
			errs = errs[:10]
		}
		return nil, fmt.Errorf("load/type errors (%s): %s", bc, strings.Join(errs, "; "))
	}
	p := &Program{Repo: repo, Config: bc, Pkgs: pkgs, All: map[string]*packages.Package{}, ssaPkg: map[string]*ssa.Package{}}
	packages.Visit(pkgs, nil, func(pk *packages.Package) { p.All[pk.PkgPath] = pk })
	if len(pkgs) > 0 {
		p.Fset = pkgs[0].Fset
	}
	nBluge := 0
	for _, pk := range pkgs {
		if strings.HasPrefix(pk.PkgPath, modPath) {
			nBluge++
		}
	}
	if nBluge < 50 {
		return nil, fmt.Errorf("only %d bluge packages loaded (expected >= 50)", nBluge)
	}
	prog, _ := ssautil.AllPackages(pkgs, ssa.BuilderMode(0))
	prog.Build()
	p.SSA = prog
	for _, sp := range prog.AllPackages() {
		p.ssaPkg[sp.Pkg.Path()] = sp
	}
	// collect bluge source functions, anonymous ones included
	var all []*ssa.Function
	for fn := range ssautil.AllFunctions(prog) {
		if fn.Pkg == nil || fn.Synthetic != "" && fn.Syntax() == nil {
			continue
		}
		if !p.InRepo(fn) {
			continue
		}
		if fn.Blocks == nil {
			continue
		}
		all = append(all, fn)
	}
	sort.Slice(all, func(i, j int) bool {
		pi, pj := p.Fset.Position(all[i].Pos()), p.Fset.Position(all[j].Pos())
		if pi.Filename != pj.Filename {
			return pi.Filename < pj.Filename
		}
		if pi.Offset != pj.Offset {
			return pi.Offset < pj.Offset
		}
		return all[i].String() < all[j].String()
	})
	p.srcFuncs = all
	return p, nil
}

// InRepo reports whether fn is declared in a bluge package or in a fixture package.
func (p *Program) InRepo(fn *ssa.Function) bool {
	pk := fn.Pkg
	if pk == nil && fn.Parent() != nil {
		f := fn
		for f.Parent() != nil {
			f = f.Parent()
		}
		pk = f.Pkg
	}
	if pk == nil {
		return false
	}
	return strings.HasPrefix(pk.Pkg.Path(), modPath)
}

// SrcFuncs returns all bluge functions with bodies, sorted by position.
func (p *Program) SrcFuncs() []*ssa.Function { return p.srcFuncs }

// FuncsIn returns bluge functions (incl. closures) declared in the package path.
func (p *Program) FuncsIn(pkgPath string) []*ssa.Function {
	var rv []*ssa.Function
	for _, f := range p.srcFuncs {
		if funcPkgPath(f) == pkgPath {
			rv = append(rv, f)
		}
	}
	return rv
}

func funcPkgPath(f *ssa.Function) string {
	for f.Parent() != nil {
		f = f.Parent()
	}
	if f.Pkg == nil {
		return ""
	}
	return f.Pkg.Pkg.Path()
}

func (p *Program) CHA() *callgraph.Graph {
	if p.cha == nil {
		p.cha = cha.CallGraph(p.SSA)
	}
	return p.cha
}

func (p *Program) VTA() *callgraph.Graph {
	if p.vta == nil {
		p.vta = vta.CallGraph(ssautil.AllFunctions(p.SSA), p.CHA())
	}
	return p.vta
}

// ---- anchor resolution --------------------------------------------------------

type unresolvedAnchor struct{ what string }

func (u unresolvedAnchor) Error() string { return "UNRESOLVED-ANCHOR " + u.what }

func (p *Program) TypesPkg(path string) *types.Package {
	pk := p.All[path]
	if pk == nil || pk.Types == nil {
		panic(unresolvedAnchor{"package " + path})
	}
	return pk.Types
}

func (p *Program) Obj(pkg, name string) types.Object {
	o := p.TypesPkg(pkg).Scope().Lookup(name)
	if o == nil {
		panic(unresolvedAnchor{pkg + "." + name})
	}
	return o
}

func (p *Program) Named(pkg, name string) *types.Named {
	tn, ok := p.Obj(pkg, name).(*types.TypeName)
	if !ok {
		panic(unresolvedAnchor{"type " + pkg + "." + name})
	}
	n, ok := tn.Type().(*types.Named)
	if !ok {
		panic(unresolvedAnchor{"named type " + pkg + "." + name})
	}
	return n
}

func (p *Program) Struct(pkg, name string) *types.Struct {
	s, ok := p.Named(pkg, name).Underlying().(*types.Struct)
	if !ok {
		panic(unresolvedAnchor{"struct " + pkg + "." + name})
	}
	return s
}

func (p *Program) Field(pkg, typ, field string) *types.Var {
	s := p.Struct(pkg, typ)
	for i := 0; i < s.NumFields(); i++ {
		if s.Field(i).Name() == field {
			return s.Field(i)
		}
	}
	panic(unresolvedAnchor{"field " + pkg + "." + typ + "." + field})
}

func (p *Program) Iface(pkg, name string) *types.Interface {
	i, ok := p.Named(pkg, name).Underlying().(*types.Interface)
	if !ok {
		panic(unresolvedAnchor{"interface " + pkg + "." + name})
	}
	return i
}

// IfaceMethod resolves a method of a named interface.
func (p *Program) IfaceMethod(pkg, iface, method string) *types.Func {
	it := p.Iface(pkg, iface)
	for i := 0; i < it.NumMethods(); i++ {
		if it.Method(i).Name() == method {
			return it.Method(i)
		}
	}
	panic(unresolvedAnchor{"interface method " + pkg + "." + iface + "." + method})
}

// Func resolves a package-level function to its SSA function.
func (p *Program) Func(pkg, name string) *ssa.Function {
	sp := p.ssaPkg[pkg]
	if sp == nil {
		panic(unresolvedAnchor{"ssa package " + pkg})
	}
	f := sp.Func(name)
	if f == nil {
		panic(unresolvedAnchor{"func " + pkg + "." + name})
	}
	return f
}

// Method resolves a (pointer- or value-receiver) method of a named type to its SSA function.
func (p *Program) Method(pkg, typ, method string) *ssa.Function {
	f := p.MethodOpt(pkg, typ, method)
	if f == nil {
		panic(unresolvedAnchor{"method " + pkg + "." + typ + "." + method})
	}
	return f
}

func (p *Program) MethodOpt(pkg, typ, method string) *ssa.Function {
	n := p.Named(pkg, typ)
	for _, t := range []types.Type{types.NewPointer(n), n} {
		ms := p.SSA.MethodSets.MethodSet(t)
		for i := 0; i < ms.Len(); i++ {
			sel := ms.At(i)
			if sel.Obj().Name() == method && sel.Obj().Pkg() != nil && sel.Obj().Pkg().Path() == pkg {
				if len(sel.Index()) != 1 {
					continue // promoted
				}
				fn := p.SSA.FuncValue(sel.Obj().(*types.Func))
				if fn != nil {
					return fn
				}
			}
		}
	}
	return nil
}

func (p *Program) ConstString(pkg, name string) string {
	c, ok := p.Obj(pkg, name).(*types.Const)
	if !ok {
		panic(unresolvedAnchor{"const " + pkg + "." + name})
	}
	s := c.Val().ExactString()
	if len(s) >= 2 && s[0] == '"' {
		s = s[1 : len(s)-1]
	}
	return s
}

// Pos renders a position relative to the repository root.
func (p *Program) Pos(pos token.Pos) string {
	if !pos.IsValid() {
		return "-"
	}
	ps := p.Fset.Position(pos)
	fn := strings.TrimPrefix(ps.Filename, p.Repo+"/")
	return fmt.Sprintf("%s:%d", fn, ps.Line)
}

// FuncName gives a stable, position-free name for a function (closures are named
// after their parent plus ordinal, as go/ssa does).
func FuncName(f *ssa.Function) string {
	if f == nil {
		return "<nil>"
	}
	s := f.String()
	s = strings.ReplaceAll(s, modPath+"/", "")
	s = strings.ReplaceAll(s, modPath, "bluge")
	return s
}
