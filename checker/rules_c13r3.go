package main

import (
	"fmt"
	"strings"

	"golang.org/x/tools/go/ssa"
)

// C13.R3: who may take a name out of the directory. A file that some Persist has created
// and is still writing (locked, possibly still empty), or that a Reader holds open, must
// keep its name. Unlinking or renaming is allowed only
//   - in package index, on a path on which this very function obtained the file's exclusive
//     lock (Directory.Remove, and the clean-up of a failed Persist), or
//   - in Directory.Unlock for the writer's own lock file (C11.R5 constrains that).
// In particular the lock helper package never unlinks: a failed lock attempt means somebody
// else owns the file.

func init() {
	registerRule(&RuleInfo{ID: "C13.R3", Title: "names are removed only by the holder of the file's exclusive lock", Floor: 2, Run: ruleC13R3,
		Covers: "every call of os.Remove / os.RemoveAll / os.Rename / Unlink in the module"})
}

func isUnlinkCall(cc *ssa.CallCommon) string {
	f := staticCallee(cc)
	if f == nil || f.Pkg == nil {
		return ""
	}
	p, n := f.Pkg.Pkg.Path(), f.Name()
	switch {
	case p == "os" && (n == "Remove" || n == "RemoveAll" || n == "Rename"):
		return "os." + n
	case (p == "syscall" || strings.HasSuffix(p, "x/sys/unix")) && (n == "Unlink" || n == "Unlinkat" || n == "Rename" || n == "Renameat"):
		return p + "." + n
	}
	return ""
}

func ruleC13R3(c *Ctx) {
	m := newPersistModel(c.Program)
	unlockImpls := map[*ssa.Function]bool{}
	for _, f := range directoryMethodImpls(c.Program, "Unlock") {
		unlockImpls[f] = true
	}
	type site struct {
		fn   *ssa.Function
		in   ssa.Instruction
		what string
	}
	byTop := map[*ssa.Function][]site{}
	var tops []*ssa.Function
	for _, fn := range c.SrcFuncs() {
		eachInstr(fn, func(in ssa.Instruction) {
			cc := callOf(in)
			if cc == nil {
				return
			}
			if w := isUnlinkCall(cc); w != "" {
				t := enclosingTop(fn)
				if byTop[t] == nil {
					tops = append(tops, t)
				}
				byTop[t] = append(byTop[t], site{fn, in, w})
			}
		})
	}
	sortFuncs(c.Program, tops)
	n := 0
	for _, t := range tops {
		sites := byTop[t]
		if c.Config.GOOS == "windows" && funcPkgPath(t) == pkgIndex {
			for range sites {
				n++
			}
			c.OK("unlink sites of "+FuncName(t)+" (windows: open files cannot be deleted, enforced by the OS sharing mode)", c.Pos(t.Pos()), "not applicable on GOOS=windows")
			continue
		}
		bad := map[ssa.Instruction]bool{}
		seen := map[ssa.Instruction]bool{}
		// function literals that the function registers with defer: they are explored in the
		// context of the path at the point where the deferred calls run
		deferred := map[*ssa.Function]bool{}
		for _, g := range append([]*ssa.Function{t}, t.AnonFuncs...) {
			eachInstr(g, func(in ssa.Instruction) {
				if d, ok := in.(*ssa.Defer); ok {
					if f := staticCallee(d.Common()); f != nil && f.Parent() != nil {
						deferred[f] = true
					}
				}
			})
		}
		s := &Summarizer{SiteOutcomes: m.outcomes, InlineDefers: true}
		s.OnInstr = func(f *ssa.Function, in ssa.Instruction, st *PState) bool {
			for _, si := range sites {
				switch {
				case si.in == in && (si.fn.Parent() == nil || deferred[si.fn]):
					seen[in] = true
					if st.Flags&pfOpened == 0 {
						bad[in] = true
					}
				case si.fn.Parent() != nil && !deferred[si.fn] && f == si.fn.Parent():
					// an unlink inside a local closure is judged where the closure is called
					if cc := callOf(in); cc != nil && staticCallee(cc) == si.fn {
						if _, isCall := in.(*ssa.Call); isCall {
							seen[si.in] = true
							if st.Flags&pfOpened == 0 {
								bad[si.in] = true
							}
						} else {
							bad[si.in], seen[si.in] = true, true // go statement: runs at another time
						}
					}
				}
			}
			return true
		}
		s.Summary(t)
		for _, si := range sites {
			n++
			key := fmt.Sprintf("%s #%d in %s", si.what, n, FuncName(si.fn))
			pos := c.Pos(si.in.Pos())
			switch {
			case funcPkgPath(t) != pkgIndex:
				c.Violate(key, pos, "a name is removed outside the directory implementation (package "+funcPkgPath(t)+"): only the holder of the file's exclusive lock may do that; after a failed lock attempt the file belongs to somebody else (a Persist in progress, an open Reader)")
			case unlockImpls[t]:
				c.OK(key, pos, "the writer's own lock file, removed by Unlock (see C11.R5)")
			case s.Exceeded:
				c.Undecided(key, pos, "path exploration did not finish")
			case !seen[si.in]:
				c.Undecided(key, pos, "the call site was not reached by the path exploration of "+FuncName(t))
			default:
				c.Check(!bad[si.in], key, pos, "only on paths where this function's exclusive open of the file succeeded",
					"the name is removed on a path on which this function does not hold the file's exclusive lock: an item another Persist is writing, or a Reader has open, loses its name")
			}
		}
	}
}
