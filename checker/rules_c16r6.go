package main

import (
	"fmt"
	"go/token"
	"go/types"

	"golang.org/x/tools/go/ssa"
)

// C16.R6: a calculator's match counter counts matches. A field that Consume increments by
// one and that Finish reads (the terms aggregation derives "other" = matches - sum of the
// returned buckets from it) must be incremented exactly once per consumed match: not
// inside a loop over the match's values, not behind a condition. Otherwise a match without
// a value (or with several) is not counted once and the remainder is off.

func init() {
	registerRule(&RuleInfo{ID: "C16.R6", Title: "match counters are incremented exactly once per consumed match", Floor: 1, Run: ruleC16R6,
		Covers: "every `field++` in a Calculator's Consume whose field its Finish reads"})
}

func ruleC16R6(c *Ctx) {
	calc := c.Iface(pkgSearch, "Calculator")
	n := 0
	for _, named := range namedTypesImplementing(c, calc) {
		consume := methodOfNamed(c, named, "Consume")
		finish := methodOfNamed(c, named, "Finish")
		if consume == nil || finish == nil {
			continue
		}
		readInFinish := map[*types.Var]bool{}
		eachInstr(finish, func(in ssa.Instruction) {
			if u, ok := isLoad2(in); ok {
				if fa, ok := u.X.(*ssa.FieldAddr); ok {
					readInFinish[fieldVar(fa)] = true
				}
			}
		})
		eachInstr(consume, func(in ssa.Instruction) {
			st, ok := in.(*ssa.Store)
			if !ok {
				return
			}
			fa, ok := st.Addr.(*ssa.FieldAddr)
			if !ok || !readInFinish[fieldVar(fa)] {
				return
			}
			b, ok := st.Val.(*ssa.BinOp)
			if !ok || b.Op != token.ADD {
				return
			}
			one, isC := constInt(b.Y)
			f2, _ := loadedField(b.X)
			if !isC || one != 1 || f2 != fieldVar(fa) {
				return
			}
			n++
			key := fmt.Sprintf("counter %s of %s is incremented once per consumed match", fieldVar(fa).Name(), named.Obj().Name())
			inLoop := enclosingLoopHeader(st.Block()) != nil
			domAll := true
			eachInstr(consume, func(g ssa.Instruction) {
				if r, ok := g.(*ssa.Return); ok {
					if !(st.Block() == r.Block() || st.Block().Dominates(r.Block())) {
						domAll = false
					}
				}
			})
			c.Check(!inLoop && domAll, key, c.Pos(st.Pos()), "unconditional, outside every loop",
				fmt.Sprintf("the counter that Finish turns into the remainder is incremented inside a loop (%v) or not on every path (%v): matches without a value for the field, or with several values, are not counted exactly once", inLoop, !domAll))
		})
	}
}
