package main

import (
	"fmt"
	"go/token"
	"go/types"
	"sort"

	"golang.org/x/tools/go/ssa"
)

func init() {
	registerProperty(&PropertyInfo{
		ID:    "C09",
		Title: "Top-N, sorting and paging return the right slice of the full ranking",
		Rules: []string{"C09.R1", "C09.R2", "C09.R3", "C09.R4", "C09.R5", "C09.R6", "C07.R1"},
		Decides: "two structural conditions (narrow claim): executing a request does not change it - every call of a method that mutates a search.Sort (stores to its direction / missing-first fields) reachable from a request's Collector() is made on a sort order produced by a function whose result elements are all freshly allocated Sorts (a deep copy), never on pointers shared with the request; the collector's pruning shortcut never keeps using a match it returned to the pool (C07.R1). equal sort keys are ordered by hit number only, and the search-after pseudo match is made to tie on that same field. doc values (sort keys) are read through a reader opened on, or cached under, the index reader of the hit.",
		NotCovered: "the ranking arithmetic itself: comparison of sort keys, tie-breaking, the small/large store switch, offsets.",
	})
	registerRule(&RuleInfo{ID: "C09.R2", Title: "the top-N store keeps size+from matches", Floor: 1, Run: ruleC09R2,
		Covers: "the limit argument of every collectorStore.AddNotExceedingSize call"})
	registerRule(&RuleInfo{ID: "C09.R3", Title: "a single sort value is 'missing' only when it is nil (an empty string is a value)", Floor: 1, Run: ruleC09R3,
		Covers: "every single-valued text source that falls back to a replacement source"})
	registerRule(&RuleInfo{ID: "C09.R1", Title: "executing a request does not change its sort order", Floor: 1, Run: ruleC09R1,
		Covers: "every call of a Sort-mutating method reachable from a Collector() method of package bluge"})
}

// ruleC09R3: in a single-valued text source with a fallback, the fallback is taken exactly on the nil edge of the primary value.
func ruleC09R3(c *Ctx) {
	tvs := c.Iface(pkgSearch, "TextValueSource")
	n := 0
	for _, nt := range namedTypesImplementing(c, tvs) {
		fn := methodOfNamed(c, nt, "Value")
		if fn == nil {
			continue
		}
		// two invokes of TextValueSource.Value on different fields: primary and replacement
		var calls []*ssa.Call
		eachInstr(fn, func(in ssa.Instruction) {
			if call, ok := in.(*ssa.Call); ok && call.Common().IsInvoke() && call.Common().Method.Name() == "Value" && types.Implements(call.Common().Value.Type(), tvs) {
				calls = append(calls, call)
			}
		})
		if len(calls) != 2 {
			continue
		}
		n++
		primary, fallback := calls[0], calls[1]
		if !instrDominates(primary, fallback) {
			primary, fallback = fallback, primary
		}
		key := "fallback of " + typeShort(nt) + ".Value is taken exactly when the primary value is nil"
		ok := false
		eachInstr(fn, func(in ssa.Instruction) {
			iff, isIf := in.(*ssa.If)
			if !isIf {
				return
			}
			b, isBin := iff.Cond.(*ssa.BinOp)
			if !isBin || b.Op != token.EQL && b.Op != token.NEQ {
				return
			}
			if !(b.X == ssa.Value(primary) && isNilConst(b.Y) || b.Y == ssa.Value(primary) && isNilConst(b.X)) {
				return
			}
			k := 0
			if b.Op == token.NEQ {
				k = 1
			}
			if edgeDominates(iff, k, fallback.Block()) {
				ok = true
			}
		})
		c.Check(ok, key, c.Pos(fn.Pos()), "replacement used on the `primary == nil` edge", "the replacement value is not selected by a nil test of the primary value (e.g. by its length): documents whose value is the empty string are ranked as if the field were missing")
	}
	if n == 0 {
		c.Undecided("single-valued text source with fallback", "-", "no such source found")
	}
}

// ruleC09R2: the top-N store is bounded by size+from.
func ruleC09R2(c *Ctx) {
	n := 0
	for _, fn := range c.FuncsIn(pkgCollector) {
		eachInstr(fn, func(in ssa.Instruction) {
			call, ok := in.(*ssa.Call)
			if !ok || !call.Common().IsInvoke() || call.Common().Method.Name() != "AddNotExceedingSize" {
				return
			}
			n++
			lim := call.Common().Args[1]
			fieldsSeen := map[string]bool{}
			dependsOn(lim, func(y ssa.Value) bool {
				if f, _ := loadedField(y); f != nil {
					fieldsSeen[f.Name()] = true
				}
				return false
			})
			b, isAdd := lim.(*ssa.BinOp)
			ok2 := isAdd && b.Op == token.ADD && fieldsSeen["size"] && fieldsSeen["skip"] && len(fieldsSeen) == 2
			c.Check(ok2, fmt.Sprintf("top-N store limit #%d in %s", n, FuncName(fn)), c.Pos(in.Pos()), "the store keeps size+skip matches",
				fmt.Sprintf("the number of matches kept by the top-N store is not size+skip (it derives from %v): pages beyond the limit come back short or empty", keysOf(fieldsSeen)))
		})
	}
}

func keysOf(m map[string]bool) []string {
	var rv []string
	for k := range m {
		rv = append(rv, k)
	}
	sort.Strings(rv)
	return rv
}

func ruleC09R1(c *Ctx) {
	fDesc := c.Field(pkgSearch, "Sort", "desc")
	fMissing := c.Field(pkgSearch, "Sort", "missingFirst")
	sortNamed := c.Named(pkgSearch, "Sort")
	// mutators: functions storing to Sort.desc / Sort.missingFirst on a non-fresh Sort
	mutators := map[*ssa.Function]bool{}
	for _, fn := range c.FuncsIn(pkgSearch) {
		for _, fv := range []*types.Var{fDesc, fMissing} {
			for _, st := range storesToField(fn, fv) {
				if !isFreshLocal(st.Addr.(*ssa.FieldAddr).X) {
					mutators[fn] = true
				}
			}
		}
	}
	// returnsFreshSort: every return of f yields a Sort allocated in f
	returnsFreshSort := func(f *ssa.Function) bool {
		if f == nil || f.Blocks == nil || f.Signature.Results().Len() != 1 || namedOf(f.Signature.Results().At(0).Type()) != sortNamed {
			return false
		}
		ok := true
		eachInstr(f, func(in ssa.Instruction) {
			if r, isRet := in.(*ssa.Return); isRet && !isFreshLocal(r.Results[0]) {
				ok = false
			}
		})
		return ok
	}
	// deepFresh: v is the result of a call whose callee builds a new slice of freshly allocated Sorts
	deepFresh := func(v ssa.Value) (bool, string) {
		call, ok := v.(*ssa.Call)
		if !ok || call.Common().StaticCallee() == nil || call.Common().StaticCallee().Blocks == nil {
			return false, "the receiver is not the result of a copying function"
		}
		g := call.Common().StaticCallee()
		why := ""
		nElem := 0
		eachInstr(g, func(in ssa.Instruction) {
			switch x := in.(type) {
			case *ssa.Call:
				if builtinName(x.Common()) == "copy" {
					why = FuncName(g) + " copies the slice of *Sort pointers (shallow copy): the copies share every Sort with the original"
				}
				if builtinName(x.Common()) == "append" && namedOf(derefElem(x.Type())) == sortNamed {
					if !dependsOn(x.Common().Args[1], func(y ssa.Value) bool {
						c2, isCall := y.(*ssa.Call)
						return isCall && returnsFreshSort(c2.Common().StaticCallee()) || isSortAlloc(y, sortNamed)
					}) {
						why = FuncName(g) + " appends Sort pointers that are not freshly allocated"
					}
					nElem++
				}
			case *ssa.Store:
				if ia, isIA := x.Addr.(*ssa.IndexAddr); isIA && namedOf(x.Val.Type()) == sortNamed {
					_ = ia
					nElem++
					c2, isCall := x.Val.(*ssa.Call)
					if !(isCall && returnsFreshSort(c2.Common().StaticCallee())) && !isSortAlloc(x.Val, sortNamed) {
						why = FuncName(g) + " stores a Sort pointer that is not freshly allocated into its result"
					}
				}
			}
		})
		if why == "" && nElem == 0 {
			why = FuncName(g) + " does not build its result from freshly allocated Sorts"
		}
		return why == "", why
	}
	n := 0
	for _, fn := range c.FuncsIn(modPath) {
		if fn.Name() != "Collector" || fn.Signature.Recv() == nil {
			continue
		}
		for r := range c.Light().Reach(fn) {
			if r.Blocks == nil || funcPkgPath(r) != modPath {
				continue
			}
			eachInstr(r, func(in ssa.Instruction) {
				call, ok := in.(*ssa.Call)
				if !ok || !mutators[call.Common().StaticCallee()] {
					return
				}
				n++
				key := fmt.Sprintf("%s applied to a private copy in %s", call.Common().StaticCallee().Name(), FuncName(r))
				okFresh, why := deepFresh(call.Common().Args[0])
				c.Check(okFresh, key, c.Pos(in.Pos()), "the receiver is a deep copy (every element a freshly allocated Sort)",
					"a sort order reachable from the request is mutated while the request is executed: "+why+"; running the request again (or the next page) sorts the other way round")
			})
		}
	}
	if n == 0 {
		c.Note("no Sort-mutating call reachable from a Collector() method")
		c.OK("no request-time mutation of sort orders", "-", "no call of a Sort mutator is reachable from Collector()")
	}
}

func derefElem(t types.Type) types.Type {
	if s, ok := t.Underlying().(*types.Slice); ok {
		return s.Elem()
	}
	return t
}

func isSortAlloc(v ssa.Value, sortNamed *types.Named) bool {
	al, ok := v.(*ssa.Alloc)
	return ok && namedOf(al.Type()) == sortNamed
}
