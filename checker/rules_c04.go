package main

import (
	"fmt"
	"go/token"
	"go/types"
	"strings"

	"golang.org/x/tools/go/ssa"
)

func init() {
	registerProperty(&PropertyInfo{
		ID:    "C04",
		Title: "A Reader is an immutable point-in-time view until it is closed",
		Rules: []string{"C01.R3", "C04.R2", "C04.R3", "C04.R4", "C04.R5", "C04.R6", "C04.R7", "C12.R3", "C11.R4"},
		Decides: "nothing reachable from a published snapshot is written and what it references stays alive: no field/element of a Snapshot or segmentSnapshot is stored to unless the object is fresh and unpublished (C01.R3); every mutating roaring.Bitmap method in bluge is invoked on a bitmap created in the same function (or on a parameter for which every caller passes such a bitmap), so shared deleted sets are only ever combined copy-on-write; every root segment carried into a new root gets exactly one AddRef in the placing block while brand-new wrappers get none; the reader acquisition increments the snapshot's reference count on the value read from Writer.root while rootLock is held; no mapped byte is used after its unmap (C12.R3). a pooled postings iterator has every cursor field re-assigned before reuse; the bytes of an in-memory item are never rewritten after they may have been handed out.",
		NotCovered: "equality of answers over time; immutability inside the segment library and inside roaring; release pairing of readers held by users.",
	})
	registerRule(&RuleInfo{ID: "C04.R2", Title: "bitmaps are mutated only when fresh (copy-on-write)", Floor: 5, Run: ruleC04R2,
		Covers: "every call of a mutating *roaring.Bitmap method in the repository"})
	registerRule(&RuleInfo{ID: "C04.R3", Title: "one reference per carried segment, none for new wrappers", Floor: 4, Run: ruleC04R3,
		Covers: "every wrapper placed into the segment list of a snapshot that is handed to the root swap"})
	registerRule(&RuleInfo{ID: "C04.R4", Title: "reader acquisition takes its reference under rootLock on the value read", Floor: 1, Run: ruleC04R4,
		Covers: "path-sensitive lock-set in every function that reads Writer.root and returns it"})
}

const roaringPkg = "github.com/RoaringBitmap/roaring"

var bitmapMutators = map[string]bool{"Add": true, "AddInt": true, "AddMany": true, "AddRange": true, "And": true, "AndNot": true, "AndAny": true, "CheckedAdd": true, "CheckedRemove": true,
	"Clear": true, "Flip": true, "FlipInt": true, "FromBase64": true, "FromBuffer": true, "FromDense": true, "FrozenView": true, "Or": true, "ReadFrom": true, "Remove": true, "RemoveRange": true,
	"RunOptimize": true, "SetCopyOnWrite": true, "UnmarshalBinary": true, "Xor": true, "FromUnsafeBytes": true}
var bitmapPure = map[string]bool{"AndCardinality": true, "Clone": true, "CloneCopyOnWriteContainers": true, "Contains": true, "ContainsInt": true, "Equals": true, "GetCardinality": true,
	"GetCopyOnWrite": true, "GetSerializedSizeInBytes": true, "GetSizeInBytes": true, "GetFrozenSizeInBytes": true, "HasRunCompression": true, "Intersects": true, "IsEmpty": true, "Iterate": true, "Iterator": true,
	"ManyIterator": true, "MarshalBinary": true, "Maximum": true, "Minimum": true, "OrCardinality": true, "Rank": true, "ReverseIterator": true, "Select": true, "Stats": true, "String": true,
	"ToArray": true, "ToBase64": true, "ToBytes": true, "WriteTo": true, "Freeze": true, "FreezeTo": true, "WriteFrozenTo": true, "ToDense": true, "DenseSize": true, "WriteDenseTo": true, "PeekableIterator": true}

func isBitmapPtr(t types.Type) bool {
	n := namedOf(t)
	return n != nil && n.Obj().Name() == "Bitmap" && n.Obj().Pkg() != nil && n.Obj().Pkg().Path() == roaringPkg
}

// isFreshBitmap: v was produced in this function by a roaring constructor / combinator / Clone.
func isFreshBitmap(v ssa.Value, seen map[ssa.Value]bool) bool {
	if seen[v] {
		return true
	}
	seen[v] = true
	switch x := v.(type) {
	case *ssa.Call:
		f := x.Common().StaticCallee()
		if f == nil || f.Pkg == nil || f.Pkg.Pkg.Path() != roaringPkg {
			return false
		}
		if f.Signature.Recv() == nil {
			return isBitmapPtr(x.Type())
		}
		return f.Name() == "Clone"
	case *ssa.Phi:
		for _, e := range x.Edges {
			if isNilConst(e) {
				continue
			}
			if !isFreshBitmap(e, seen) {
				return false
			}
		}
		return true
	case *ssa.UnOp:
		if x.Op != token.MUL {
			return false
		}
		cell, ok := x.X.(*ssa.Alloc)
		if !ok || cell.Referrers() == nil {
			return false
		}
		n := 0
		for _, r := range *cell.Referrers() {
			if st, ok := r.(*ssa.Store); ok && st.Addr == cell {
				if isNilConst(st.Val) {
					continue
				}
				n++
				if !isFreshBitmap(st.Val, seen) {
					return false
				}
			}
		}
		return n > 0
	}
	return false
}

func ruleC04R2(c *Ctx) {
	g := c.Light()
	n := 0
	for _, fn := range c.SrcFuncs() {
		eachInstr(fn, func(in ssa.Instruction) {
			cc := callOf(in)
			if cc == nil {
				return
			}
			f := cc.StaticCallee()
			if f == nil || f.Signature.Recv() == nil || !isBitmapPtr(f.Signature.Recv().Type()) || f.Pkg == nil || f.Pkg.Pkg.Path() != roaringPkg {
				return
			}
			if bitmapPure[f.Name()] {
				return
			}
			n++
			key := fmt.Sprintf("Bitmap.%s call #%d in %s", f.Name(), n, FuncName(fn))
			pos := c.Pos(in.Pos())
			if !bitmapMutators[f.Name()] {
				c.Undecided(key, pos, "method "+f.Name()+" of roaring.Bitmap is in neither the mutator nor the pure table of the checker")
				return
			}
			recv := cc.Args[0]
			if isFreshBitmap(recv, map[ssa.Value]bool{}) {
				c.OK(key, pos, "receiver was created in this function")
				return
			}
			if p, ok := recv.(*ssa.Parameter); ok {
				idx := -1
				for i, fp := range fn.Params {
					if fp == p {
						idx = i
					}
				}
				callers := g.Callers(fn)
				all := len(callers) > 0 && idx >= 0
				for _, cs := range callers {
					args := cs.Instr.Common().Args
					if cs.Instr.Common().IsInvoke() || idx >= len(args) || !isFreshBitmap(args[idx], map[ssa.Value]bool{}) {
						all = false
					}
				}
				c.Check(all, key, pos, fmt.Sprintf("receiver is a parameter; all %d caller(s) pass a bitmap they created", len(callers)),
					"a bitmap received as parameter is mutated in place and not every caller passes a bitmap it created itself")
				return
			}
			c.Violate(key, pos, "a bitmap that was not created in this function is mutated in place: deleted sets and posting bitmaps are shared with open Readers and must be combined copy-on-write (roaring.Or/And/AndNot/Clone)")
		})
	}
}

// ---- R3 -----------------------------------------------------------------------------------

// wrapperOfAddRef: for an AddRef call returns the wrapper value it is invoked on.
func addRefWrapper(cc *ssa.CallCommon) ssa.Value {
	name := ""
	var recv ssa.Value
	if cc.IsInvoke() {
		name, recv = cc.Method.Name(), cc.Value
	} else if f := cc.StaticCallee(); f != nil && f.Signature.Recv() != nil && len(cc.Args) > 0 {
		name, recv = f.Name(), cc.Args[0]
	}
	if name != "AddRef" || recv == nil {
		return nil
	}
	// look through the embedded refCounter field
	if f, base := loadedField(recv); f != nil && f.Embedded() {
		return base
	}
	return recv
}

// forwardedPath: access path of v with same-block store-to-load forwarding for `x[i] = e; x[i].f...`.
func forwardedPath(v ssa.Value, blk *ssa.BasicBlock, before ssa.Instruction) string {
	if u, ok := isLoad(v); ok {
		ap := accessPath(u.X)
		if ap != "" {
			for _, in := range blk.Instrs {
				if in == before {
					break
				}
				if st, ok := in.(*ssa.Store); ok && accessPath(st.Addr) == ap {
					return forwardedPath(st.Val, blk, st)
				}
			}
		}
		switch ad := u.X.(type) {
		case *ssa.FieldAddr:
			if p := forwardedPath(ad.X, blk, before); p != "" {
				return "*" + p + ".&" + fieldVar(ad).Name()
			}
		}
	}
	return accessPath(v)
}

func ruleC04R3(c *Ctx) {
	a := c.Idx()
	n := 0
	for _, fn := range c.FuncsIn(pkgIndex) {
		// only functions that hand a fresh snapshot to the root swap
		swaps := false
		eachInstr(fn, func(in ssa.Instruction) {
			if ci, ok := in.(*ssa.Call); ok && ci.Common().StaticCallee() != nil && isRootSwapper(ci.Common().StaticCallee(), a) {
				swaps = true
			}
		})
		if !swaps {
			continue
		}
		// placements: stores of a *segmentSnapshot into (the backing array of an append to / an element of) a snapshot's segment slice
		eachInstr(fn, func(in ssa.Instruction) {
			st, ok := in.(*ssa.Store)
			if !ok || namedOf(st.Val.Type()) != a.SegSnap {
				return
			}
			if _, isPtr := st.Val.Type().Underlying().(*types.Pointer); !isPtr {
				return
			}
			ia, ok := st.Addr.(*ssa.IndexAddr)
			if !ok {
				return
			}
			placed := false
			if f, base := loadedField(ia.X); f == a.SnapSegment && isFreshOwned(base, 0) {
				placed = true // newSnap.segment[i] = x
			}
			if al, ok := ia.X.(*ssa.Alloc); ok && al.Comment == "varargs" {
				// append(newSnap.segment, x)
				for _, r := range *al.Referrers() {
					if sl, ok := r.(*ssa.Slice); ok && sl.Referrers() != nil {
						for _, rr := range *sl.Referrers() {
							if call, ok := rr.(*ssa.Call); ok && builtinName(call.Common()) == "append" {
								if f, base := loadedField(call.Common().Args[0]); f == a.SnapSegment && isFreshOwned(base, 0) {
									placed = true
								}
							}
						}
					}
				}
			}
			if !placed {
				return
			}
			n++
			key := fmt.Sprintf("segment placement #%d in %s", n, FuncName(fn))
			pos := c.Pos(st.Pos())
			// the wrapper that ends up listed
			var wrapperPath string
			carried := false
			switch v := st.Val.(type) {
			case *ssa.Alloc:
				segStores := fieldStoresOfLiteral(v, a.SSSegment)
				if len(segStores) != 1 {
					c.Undecided(key, pos, "literal with no unique segment field store")
					return
				}
				w := segStores[0].Val
				if f, base := loadedField(w); f == a.SSSegment && segElemPath(base, a) != "" {
					carried = true
					wrapperPath = accessPath(w)
				}
			default:
				if p := segElemPath(v, a); p != "" {
					carried = true
					wrapperPath = "*" + p + ".&" + a.SSSegment.Name()
				} else {
					c.Undecided(key, pos, "placed value is neither a literal nor an element of a snapshot's segment list")
					return
				}
			}
			// AddRef calls in the placing block
			cnt := 0
			for _, bi := range st.Block().Instrs {
				cc := callOf(bi)
				if cc == nil {
					continue
				}
				w := addRefWrapper(cc)
				if w == nil {
					continue
				}
				if wrapperPath != "" && forwardedPath(w, st.Block(), bi) == wrapperPath {
					cnt++
				}
			}
			if carried {
				c.Check(cnt == 1, key+" [carried]", pos, "exactly one AddRef on the carried wrapper in the placing block",
					fmt.Sprintf("%d AddRef call(s) on the carried wrapper in the placing block (exactly one is required: the new root lists the segment once more; closing the old root releases one reference)", cnt))
			} else {
				// new wrapper: ownership is transferred; an AddRef on it anywhere in the function would leak it
				extra := 0
				if lit, ok := st.Val.(*ssa.Alloc); ok {
					w := fieldStoresOfLiteral(lit, a.SSSegment)[0].Val
					eachInstr(fn, func(x ssa.Instruction) {
						if cc := callOf(x); cc != nil {
							if aw := addRefWrapper(cc); aw != nil && (aw == w || accessPath(aw) != "" && accessPath(aw) == accessPath(w)) {
								extra++
							}
						}
					})
				}
				c.Check(extra == 0, key+" [new wrapper]", pos, "ownership of the new wrapper's reference is transferred, no AddRef", "an AddRef on a brand-new wrapper leaks its file handle / mapping")
			}
		})
	}
}

// ---- R4 -----------------------------------------------------------------------------------

func ruleC04R4(c *Ctx) {
	a := c.Idx()
	// the reference-count increment: the Snapshot method(s) that store refs+k
	isAddRef := func(f *ssa.Function) bool {
		if f == nil || f.Blocks == nil || f.Signature.Recv() == nil || namedOf(f.Signature.Recv().Type()) != a.Snapshot {
			return false
		}
		ok := false
		for _, st := range storesToField(f, a.SnapRefs) {
			if b, isBin := st.Val.(*ssa.BinOp); isBin && b.Op == token.ADD {
				ok = true
			}
		}
		return ok
	}
	n := 0
	for _, fn := range c.FuncsIn(pkgIndex) {
		// getter: loads Writer.root and returns *Snapshot deriving from it
		if fn.Signature.Results().Len() != 1 || namedOf(fn.Signature.Results().At(0).Type()) != a.Snapshot {
			continue
		}
		var rootLoads []ssa.Value
		eachInstr(fn, func(in ssa.Instruction) {
			if u, ok := in.(*ssa.UnOp); ok && u.Op == token.MUL && isFieldAddr(u.X, a.WRoot) {
				rootLoads = append(rootLoads, u)
			}
		})
		if len(rootLoads) == 0 {
			continue
		}
		n++
		key := "reader acquisition in " + FuncName(fn)
		const (
			fLocked uint64 = 1 << iota
			fRef
			fWriteLocked
			fDeferredUnlock
		)
		var problems []string
		ex := &Explorer{Fn: fn}
		ex.OnInstr = func(in ssa.Instruction, st *PState) bool {
			lockStep(in, a.WRootLock, st, fLocked, fWriteLocked, fDeferredUnlock)
			cc := callOf(in)
			if cc != nil {
				if _, isDefer := in.(*ssa.Defer); isDefer {
					return true
				}
				if isAddRef(cc.StaticCallee()) {
					if st.Flags&fLocked == 0 {
						problems = append(problems, "the reference is taken at "+c.Pos(in.Pos())+" outside the rootLock section: the root may have been swapped out and released in between")
					}
					if !dependsOnField(cc.Args[0], a.WRoot) {
						problems = append(problems, "the reference is taken on a value that is not the one read from Writer.root")
					}
					st.Flags |= fRef
				}
			}
			if u, ok := in.(*ssa.UnOp); ok && u.Op == token.MUL && isFieldAddr(u.X, a.WRoot) && st.Flags&fLocked == 0 {
				problems = append(problems, "Writer.root is read at "+c.Pos(in.Pos())+" without rootLock")
			}
			return true
		}
		ex.OnReturn = func(r *ssa.Return, st *PState) {
			if st.Eval(r.Results[0]) == TriNo || isNilConst(st.Canon(r.Results[0])) {
				return
			}
			if !dependsOnField(r.Results[0], a.WRoot) {
				return
			}
			if st.Flags&fRef == 0 {
				problems = append(problems, "a path returns the root snapshot without having taken a reference on it")
			}
			if st.Flags&fLocked != 0 && st.Flags&fDeferredUnlock == 0 {
				problems = append(problems, "a path returns with rootLock still held")
			}
		}
		ex.Run()
		if ex.Exceeded {
			c.Undecided(key, c.Pos(fn.Pos()), "path exploration did not finish")
			continue
		}
		c.Check(len(problems) == 0, key, c.Pos(fn.Pos()), "root read and addRef inside one rootLock section on every path that returns the root", uniqJoin(problems))
	}
	_ = strings.Join
}
