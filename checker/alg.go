package main

import (
	"fmt"
	"go/ast"
	"go/constant"
	"go/token"
	"go/types"
	"math/big"
	"sort"
	"strings"
)

// ALG: canonical form of an arithmetic expression as a rational function (quotient of
// polynomials with exact rational coefficients) over named atoms. Equality is polynomial
// identity after cross-multiplication. This is expression equivalence over the reals -
// numeric conversions are the identity, functions such as math.Log are uninterpreted
// (compared by the canonical form of their arguments). No path exploration, no solver.

type poly map[string]*big.Rat // monomial key ("a*a*b", "" for the constant) -> coefficient

type ratFunc struct{ num, den poly }

func monoMul(a, b string) string {
	if a == "" {
		return b
	}
	if b == "" {
		return a
	}
	parts := append(strings.Split(a, "*"), strings.Split(b, "*")...)
	sort.Strings(parts)
	return strings.Join(parts, "*")
}

func pConst(r *big.Rat) poly {
	p := poly{}
	if r.Sign() != 0 {
		p[""] = new(big.Rat).Set(r)
	}
	return p
}

func pAtom(a string) poly { return poly{a: big.NewRat(1, 1)} }

func pAdd(a, b poly, sign int64) poly {
	r := poly{}
	for k, v := range a {
		r[k] = new(big.Rat).Set(v)
	}
	for k, v := range b {
		t := new(big.Rat).Mul(v, big.NewRat(sign, 1))
		if cur, ok := r[k]; ok {
			cur.Add(cur, t)
			if cur.Sign() == 0 {
				delete(r, k)
			}
		} else if t.Sign() != 0 {
			r[k] = t
		}
	}
	return r
}

func pMul(a, b poly) poly {
	r := poly{}
	for ka, va := range a {
		for kb, vb := range b {
			k := monoMul(ka, kb)
			t := new(big.Rat).Mul(va, vb)
			if cur, ok := r[k]; ok {
				cur.Add(cur, t)
				if cur.Sign() == 0 {
					delete(r, k)
				}
			} else {
				r[k] = t
			}
		}
	}
	return r
}

func pEqual(a, b poly) bool { return len(pAdd(a, b, -1)) == 0 }

func pString(p poly) string {
	var keys []string
	for k := range p {
		keys = append(keys, k)
	}
	sort.Strings(keys)
	var parts []string
	for _, k := range keys {
		c := p[k].RatString()
		if k == "" {
			parts = append(parts, c)
		} else {
			parts = append(parts, c+"·"+k)
		}
	}
	if len(parts) == 0 {
		return "0"
	}
	return strings.Join(parts, " + ")
}

func rfConst(r *big.Rat) ratFunc { return ratFunc{pConst(r), pConst(big.NewRat(1, 1))} }
func rfAtom(a string) ratFunc     { return ratFunc{pAtom(a), pConst(big.NewRat(1, 1))} }
func rfAdd(a, b ratFunc, sign int64) ratFunc {
	return ratFunc{pAdd(pMul(a.num, b.den), pMul(b.num, a.den), sign), pMul(a.den, b.den)}
}
func rfMul(a, b ratFunc) ratFunc { return ratFunc{pMul(a.num, b.num), pMul(a.den, b.den)} }
func rfDiv(a, b ratFunc) ratFunc { return ratFunc{pMul(a.num, b.den), pMul(a.den, b.num)} }
func rfEqual(a, b ratFunc) bool  { return pEqual(pMul(a.num, b.den), pMul(b.num, a.den)) }
func rfString(a ratFunc) string {
	if pEqual(a.den, pConst(big.NewRat(1, 1))) {
		return "(" + pString(a.num) + ")"
	}
	return "(" + pString(a.num) + ")/(" + pString(a.den) + ")"
}

// substitute replaces atom by a rational constant.
func rfSubst(a ratFunc, atom string, val *big.Rat) ratFunc {
	sub := func(p poly) poly {
		r := poly{}
		for k, v := range p {
			coef := new(big.Rat).Set(v)
			var rest []string
			if k != "" {
				for _, f := range strings.Split(k, "*") {
					if f == atom {
						coef.Mul(coef, val)
					} else {
						rest = append(rest, f)
					}
				}
			}
			nk := strings.Join(rest, "*")
			if cur, ok := r[nk]; ok {
				cur.Add(cur, coef)
				if cur.Sign() == 0 {
					delete(r, nk)
				}
			} else if coef.Sign() != 0 {
				r[nk] = coef
			}
		}
		return r
	}
	return ratFunc{sub(a.num), sub(a.den)}
}

// ---- symbolic evaluation of Go expressions ------------------------------------------------

type algEnv struct {
	c     *Ctx
	info  *types.Info
	vars  map[types.Object]ratFunc // inlined locals / parameters
	paths map[types.Object]string  // non-numeric identifiers that stand for a field path (constructor parameters)
	recv  types.Object             // receiver object of the function being evaluated (rendered "$")
	depth int
	// field definitions: fields assigned once in a constructor literal, as functions of other fields
	fieldDefs map[string]ratFunc
	notes     []string
	// exprVars: non-numeric locals assigned exactly once from a call (e.g. an explanation built
	// first and used afterwards): the identifier stands for that call expression
	exprVars map[types.Object]ast.Expr
}

// resolveExpr: an identifier bound once to a call expression stands for that expression.
func (e *algEnv) resolveExpr(x ast.Expr) ast.Expr {
	for i := 0; i < 4; i++ {
		id, ok := ast.Unparen(x).(*ast.Ident)
		if !ok || e.exprVars == nil {
			return x
		}
		obj := e.info.Uses[id]
		if obj == nil {
			obj = e.info.Defs[id]
		}
		r, ok := e.exprVars[obj]
		if !ok || r == nil {
			return x
		}
		x = r
	}
	return x
}

func (e *algEnv) child() *algEnv {
	n := *e
	n.vars = map[types.Object]ratFunc{}
	for k, v := range e.vars {
		n.vars[k] = v
	}
	n.depth = e.depth + 1
	if e.exprVars != nil {
		n.exprVars = map[types.Object]ast.Expr{}
		for k, v := range e.exprVars {
			n.exprVars[k] = v
		}
	}
	return &n
}

func atomName(s string) string {
	s = strings.NewReplacer(" ", "", "*", "×", "+", "⊕").Replace(s)
	return s
}

// selectorPath renders x.f.g with the receiver as "$".
func (e *algEnv) selectorPath(x ast.Expr) (string, bool) {
	switch v := x.(type) {
	case *ast.Ident:
		obj := e.info.Uses[v]
		if obj == nil {
			obj = e.info.Defs[v]
		}
		if obj != nil && obj == e.recv {
			return "$", true
		}
		if p, ok := e.paths[obj]; ok {
			return p, true
		}
		return v.Name, true
	case *ast.SelectorExpr:
		if p, ok := e.selectorPath(v.X); ok {
			return p + "." + v.Sel.Name, true
		}
	case *ast.ParenExpr:
		return e.selectorPath(v.X)
	}
	return "", false
}

func (e *algEnv) eval(x ast.Expr) (ratFunc, error) {
	if e.depth > 8 {
		return ratFunc{}, fmt.Errorf("inlining too deep")
	}
	if tv, ok := e.info.Types[x]; ok && tv.Value != nil {
		switch tv.Value.Kind() {
		case constant.Int, constant.Float:
			r, ok := new(big.Rat).SetString(tv.Value.ExactString())
			if ok {
				return rfConst(r), nil
			}
		}
	}
	switch v := x.(type) {
	case *ast.ParenExpr:
		return e.eval(v.X)
	case *ast.BasicLit:
		r, ok := new(big.Rat).SetString(v.Value)
		if !ok {
			return ratFunc{}, fmt.Errorf("literal %s", v.Value)
		}
		return rfConst(r), nil
	case *ast.Ident:
		obj := e.info.Uses[v]
		if obj == nil {
			obj = e.info.Defs[v]
		}
		if rf, ok := e.vars[obj]; ok {
			return rf, nil
		}
		return rfAtom(atomName(v.Name)), nil
	case *ast.SelectorExpr:
		if p, ok := e.selectorPath(v); ok {
			if def, ok := e.fieldDefs[p]; ok {
				return def, nil
			}
			return rfAtom(atomName(p)), nil
		}
		// (call).Value : value of an explanation produced by a call
		if v.Sel.Name == "Value" {
			if call, ok := v.X.(*ast.CallExpr); ok {
				if val, _, _, err := e.explanationOfCall(call); err == nil {
					return val, nil
				}
			}
		}
		return ratFunc{}, fmt.Errorf("selector %s", types.ExprString(v))
	case *ast.UnaryExpr:
		a, err := e.eval(v.X)
		if err != nil {
			return a, err
		}
		switch v.Op {
		case token.SUB:
			return rfMul(rfConst(big.NewRat(-1, 1)), a), nil
		case token.ADD:
			return a, nil
		}
		return ratFunc{}, fmt.Errorf("unary %s", v.Op)
	case *ast.BinaryExpr:
		a, err := e.eval(v.X)
		if err != nil {
			return a, err
		}
		b, err := e.eval(v.Y)
		if err != nil {
			return b, err
		}
		switch v.Op {
		case token.ADD:
			return rfAdd(a, b, 1), nil
		case token.SUB:
			return rfAdd(a, b, -1), nil
		case token.MUL:
			return rfMul(a, b), nil
		case token.QUO:
			return rfDiv(a, b), nil
		}
		return ratFunc{}, fmt.Errorf("operator %s", v.Op)
	case *ast.IndexExpr:
		b, _ := e.selectorPath(v.X)
		i, err := e.eval(v.Index)
		if err != nil {
			return i, err
		}
		return rfAtom(atomName("index[" + b + "," + rfString(i) + "]")), nil
	case *ast.CallExpr:
		return e.evalCall(v)
	}
	return ratFunc{}, fmt.Errorf("unsupported expression %s", types.ExprString(x))
}

func (e *algEnv) evalCall(call *ast.CallExpr) (ratFunc, error) {
	// conversions are the identity
	if tv, ok := e.info.Types[call.Fun]; ok && tv.IsType() && len(call.Args) == 1 {
		return e.eval(call.Args[0])
	}
	callee := calleeObject(e.info, call)
	if callee != nil && callee.Pkg() != nil && callee.Pkg().Path() == "math" {
		// uninterpreted function of canonical arguments
		var args []string
		for _, a := range call.Args {
			rf, err := e.eval(a)
			if err != nil {
				return rf, err
			}
			args = append(args, rfString(rf))
		}
		return rfAtom(atomName(callee.Name() + "〈" + strings.Join(args, ",") + "〉")), nil
	}
	// small pure helper of the repository: single return
	if callee != nil {
		vals, err := e.evalHelper(callee, call)
		if err != nil {
			return ratFunc{}, err
		}
		if len(vals) >= 1 {
			return vals[0], nil
		}
		return ratFunc{}, fmt.Errorf("helper %s returns nothing", callee.Name())
	}
	return ratFunc{}, fmt.Errorf("call %s", types.ExprString(call))
}

// evalHelper evaluates a call of a small repository function with one unconditional return
// and gives the value of every (numeric) result; named results and a bare return are handled.
func (e *algEnv) evalHelper(callee *types.Func, call *ast.CallExpr) ([]ratFunc, error) {
	fd, inf := e.c.funcDecl(callee)
	if fd == nil || fd.Body == nil {
		return nil, fmt.Errorf("call %s", types.ExprString(call))
	}
	if e.depth > 6 {
		return nil, fmt.Errorf("helper nesting too deep at %s", callee.Name())
	}
	sub := e.child()
	sub.info = inf
	sub.recv = nil
	if fd.Recv != nil && len(fd.Recv.List) == 1 && len(fd.Recv.List[0].Names) == 1 {
		sub.recv = inf.Defs[fd.Recv.List[0].Names[0]]
	}
	// the receiver of the call must be the caller's receiver for field atoms to line up
	i := 0
	for _, fld := range fd.Type.Params.List {
		for _, nm := range fld.Names {
			if i < len(call.Args) {
				rf, err := e.eval(call.Args[i])
				if err != nil {
					return nil, err
				}
				sub.vars[inf.Defs[nm]] = rf
			}
			i++
		}
	}
	var named []types.Object
	if fd.Type.Results != nil {
		for _, fld := range fd.Type.Results.List {
			for _, nm := range fld.Names {
				named = append(named, inf.Defs[nm])
			}
		}
	}
	rets, err := sub.evalBody(fd.Body)
	if err != nil {
		return nil, err
	}
	if len(rets) != 1 || rets[0].cond != "" {
		return nil, fmt.Errorf("helper %s is not a single-return function", callee.Name())
	}
	var out []ratFunc
	if len(rets[0].values) == 0 {
		for _, o := range named {
			rf, ok := rets[0].env.vars[o]
			if !ok {
				rf = rfAtom(atomName("‹" + o.Name() + "›"))
			}
			out = append(out, rf)
		}
		return out, nil
	}
	for _, v := range rets[0].values {
		rf, err := rets[0].env.eval(v)
		if err != nil {
			rf = rfAtom(atomName("‹" + types.ExprString(v) + "›"))
		}
		out = append(out, rf)
	}
	return out, nil
}

func calleeObject(info *types.Info, call *ast.CallExpr) *types.Func {
	switch f := call.Fun.(type) {
	case *ast.Ident:
		fn, _ := info.Uses[f].(*types.Func)
		return fn
	case *ast.SelectorExpr:
		fn, _ := info.Uses[f.Sel].(*types.Func)
		return fn
	}
	return nil
}

// funcDecl finds the declaration of a repository function.
func (c *Ctx) funcDecl(fn *types.Func) (*ast.FuncDecl, *types.Info) {
	if fn.Pkg() == nil {
		return nil, nil
	}
	pk := c.All[fn.Pkg().Path()]
	if pk == nil || !strings.HasPrefix(pk.PkgPath, modPath) {
		return nil, nil
	}
	for _, f := range pk.Syntax {
		for _, d := range f.Decls {
			if fd, ok := d.(*ast.FuncDecl); ok && pk.TypesInfo.Defs[fd.Name] == types.Object(fn) {
				return fd, pk.TypesInfo
			}
		}
	}
	return nil, nil
}

type algReturn struct {
	cond   string // "" or rendered condition, e.g. "$.boost==1"
	condEq *condEq
	values []ast.Expr
	env    *algEnv
}

type condEq struct {
	atom string
	val  *big.Rat
	neg  bool
}

// evalBody walks a function body: single-assignment locals are inlined, `x += elem.f` in a
// range loop turns x into SUM(range, .f), `if cond { return ... }` yields conditional returns.
func (e *algEnv) evalBody(body *ast.BlockStmt) ([]algReturn, error) {
	var rets []algReturn
	var walk func(stmts []ast.Stmt, cond string, ce *condEq) error
	walk = func(stmts []ast.Stmt, cond string, ce *condEq) error {
		for _, st := range stmts {
			switch s := st.(type) {
			case *ast.AssignStmt:
				if len(s.Lhs) > 1 && len(s.Rhs) == 1 && (s.Tok == token.DEFINE || s.Tok == token.ASSIGN) {
					// a, b := helper(x)
					if call, ok := s.Rhs[0].(*ast.CallExpr); ok {
						var vals []ratFunc
						if callee := calleeObject(e.info, call); callee != nil {
							vals, _ = e.evalHelper(callee, call)
						}
						for i, l := range s.Lhs {
							id, ok := l.(*ast.Ident)
							if !ok || id.Name == "_" {
								continue
							}
							obj := e.info.Defs[id]
							if obj == nil {
								obj = e.info.Uses[id]
							}
							if obj == nil {
								continue
							}
							if b, ok := obj.Type().Underlying().(*types.Basic); !ok || b.Info()&types.IsNumeric == 0 {
								continue
							}
							if i < len(vals) {
								e.vars[obj] = vals[i]
							} else {
								e.vars[obj] = rfAtom(atomName("‹" + id.Name + "›"))
							}
						}
					}
				}
				if len(s.Lhs) == len(s.Rhs) && (s.Tok == token.DEFINE || s.Tok == token.ASSIGN) {
					for i, l := range s.Lhs {
						id, ok := l.(*ast.Ident)
						if !ok {
							continue
						}
						obj := e.info.Defs[id]
						if obj == nil {
							obj = e.info.Uses[id]
						}
						if obj == nil {
							continue
						}
						if b, ok := obj.Type().Underlying().(*types.Basic); !ok || b.Info()&types.IsNumeric == 0 {
							// a non-numeric local bound to a call (an explanation built first, used later)
							if _, isCall := ast.Unparen(s.Rhs[i]).(*ast.CallExpr); isCall {
								if e.exprVars == nil {
									e.exprVars = map[types.Object]ast.Expr{}
								}
								if _, again := e.exprVars[obj]; again {
									e.exprVars[obj] = nil // assigned more than once: not a stand-in
								} else {
									e.exprVars[obj] = s.Rhs[i]
								}
							}
							continue
						}
						rf, err := e.eval(s.Rhs[i])
						if err != nil {
							// an opaque quantity (e.g. a statistic read through an interface): a fresh atom
							rf = rfAtom(atomName("‹" + id.Name + "›"))
						}
						e.vars[obj] = rf
					}
				}
			case *ast.DeclStmt:
				if gd, ok := s.Decl.(*ast.GenDecl); ok {
					for _, sp := range gd.Specs {
						vs, ok := sp.(*ast.ValueSpec)
						if !ok {
							continue
						}
						for i, nm := range vs.Names {
							obj := e.info.Defs[nm]
							if b, ok := obj.Type().Underlying().(*types.Basic); ok && b.Info()&types.IsNumeric != 0 {
								if i < len(vs.Values) {
									rf, err := e.eval(vs.Values[i])
									if err != nil {
										return err
									}
									e.vars[obj] = rf
								} else {
									e.vars[obj] = rfConst(new(big.Rat))
								}
							}
						}
					}
				}
			case *ast.RangeStmt:
				// accumulate loops
				for _, bs := range s.Body.List {
					as, ok := bs.(*ast.AssignStmt)
					if !ok || as.Tok != token.ADD_ASSIGN || len(as.Lhs) != 1 {
						continue
					}
					id, ok := as.Lhs[0].(*ast.Ident)
					if !ok {
						continue
					}
					obj := e.info.Uses[id]
					rng, _ := e.selectorPath(s.X)
					term := types.ExprString(as.Rhs[0])
					if v, ok := s.Value.(*ast.Ident); ok {
						term = strings.Replace(term, v.Name, "", 1)
					}
					prev, has := e.vars[obj]
					sum := rfAtom(atomName("SUM〈" + rng + "," + term + "〉"))
					if has {
						sum = rfAdd(prev, sum, 1)
					}
					e.vars[obj] = sum
				}
			case *ast.IfStmt:
				c2, ce2 := e.renderCond(s.Cond)
				hasReturn := false
				ast.Inspect(s.Body, func(n ast.Node) bool {
					if _, ok := n.(*ast.ReturnStmt); ok {
						hasReturn = true
					}
					return true
				})
				if !hasReturn {
					// a conditional assignment makes the variable an opaque quantity
					ast.Inspect(s, func(n ast.Node) bool {
						as, ok := n.(*ast.AssignStmt)
						if !ok {
							return true
						}
						for _, l := range as.Lhs {
							if id, ok := l.(*ast.Ident); ok {
								obj := e.info.Uses[id]
								if obj == nil {
									continue
								}
								if b, ok := obj.Type().Underlying().(*types.Basic); ok && b.Info()&types.IsNumeric != 0 {
									e.vars[obj] = rfAtom(atomName("‹" + id.Name + "›"))
								}
							}
						}
						return true
					})
				}
				if hasReturn {
					sub := e.child()
					sub.depth = e.depth
					saved := e.vars
					e.vars = sub.vars
					if err := walk(s.Body.List, c2, ce2); err != nil {
						return err
					}
					e.vars = saved
					if ce2 != nil {
						neg := *ce2
						neg.neg = !neg.neg
						ce = &neg
						cond = "!(" + c2 + ")"
					}
				}
			case *ast.ReturnStmt:
				snap := e.child()
				snap.depth = e.depth
				rets = append(rets, algReturn{cond: cond, condEq: ce, values: s.Results, env: snap})
				return nil
			}
		}
		return nil
	}
	err := walk(body.List, "", nil)
	return rets, err
}

// renderCond recognises `<field> == <const>` / `!=`.
func (e *algEnv) renderCond(x ast.Expr) (string, *condEq) {
	b, ok := x.(*ast.BinaryExpr)
	if !ok || b.Op != token.EQL && b.Op != token.NEQ {
		return types.ExprString(x), nil
	}
	l, err1 := e.eval(b.X)
	r, err2 := e.eval(b.Y)
	if err1 != nil || err2 != nil {
		return types.ExprString(x), nil
	}
	atomOf := func(rf ratFunc) string {
		if len(rf.num) == 1 && pEqual(rf.den, pConst(big.NewRat(1, 1))) {
			for k, v := range rf.num {
				if k != "" && !strings.Contains(k, "*") && v.Cmp(big.NewRat(1, 1)) == 0 {
					return k
				}
			}
		}
		return ""
	}
	constOf := func(rf ratFunc) *big.Rat {
		if pEqual(rf.den, pConst(big.NewRat(1, 1))) {
			if len(rf.num) == 0 {
				return new(big.Rat)
			}
			if v, ok := rf.num[""]; ok && len(rf.num) == 1 {
				return v
			}
		}
		return nil
	}
	if a, cst := atomOf(l), constOf(r); a != "" && cst != nil {
		return types.ExprString(x), &condEq{atom: a, val: cst, neg: b.Op == token.NEQ}
	}
	if a, cst := atomOf(r), constOf(l); a != "" && cst != nil {
		return types.ExprString(x), &condEq{atom: a, val: cst, neg: b.Op == token.NEQ}
	}
	return types.ExprString(x), nil
}

// explanationOfCall: value, message and children of the explanation produced by a call
// (NewExplanation itself, or a repository function whose single return is such a call).
func (e *algEnv) explanationOfCall(call *ast.CallExpr) (ratFunc, string, []ast.Expr, error) {
	callee := calleeObject(e.info, call)
	if callee == nil {
		return ratFunc{}, "", nil, fmt.Errorf("unknown callee")
	}
	if callee.Name() == "NewExplanation" && callee.Pkg() != nil && callee.Pkg().Path() == pkgSearch {
		v, err := e.eval(call.Args[0])
		msg := ""
		if len(call.Args) > 1 {
			msg = stringOf(e.info, call.Args[1])
		}
		var kids []ast.Expr
		if len(call.Args) > 2 {
			kids = call.Args[2:]
		}
		return v, msg, kids, err
	}
	fd, inf := e.c.funcDecl(callee)
	if fd == nil || fd.Body == nil {
		return ratFunc{}, "", nil, fmt.Errorf("no body for %s", callee.Name())
	}
	sub := e.child()
	sub.info = inf
	sub.recv = nil
	if fd.Recv != nil && len(fd.Recv.List) == 1 && len(fd.Recv.List[0].Names) == 1 {
		sub.recv = inf.Defs[fd.Recv.List[0].Names[0]]
	}
	i := 0
	for _, fld := range fd.Type.Params.List {
		for _, nm := range fld.Names {
			if i < len(call.Args) {
				if b, ok := inf.Defs[nm].Type().Underlying().(*types.Basic); ok && b.Info()&types.IsNumeric != 0 {
					rf, err := e.eval(call.Args[i])
					if err != nil {
						return rf, "", nil, err
					}
					sub.vars[inf.Defs[nm]] = rf
				}
			}
			i++
		}
	}
	rets, err := sub.evalBody(fd.Body)
	if err != nil {
		return ratFunc{}, "", nil, err
	}
	for _, r := range rets {
		if len(r.values) == 1 {
			if c2, ok := r.env.resolveExpr(r.values[0]).(*ast.CallExpr); ok {
				return r.env.explanationOfCall(c2)
			}
		}
	}
	return ratFunc{}, "", nil, fmt.Errorf("%s does not return an explanation literal", callee.Name())
}

// stringOf: a string literal, or the format string of fmt.Sprintf.
func stringOf(info *types.Info, x ast.Expr) string {
	if tv, ok := info.Types[x]; ok && tv.Value != nil && tv.Value.Kind() == constant.String {
		return constant.StringVal(tv.Value)
	}
	if call, ok := x.(*ast.CallExpr); ok && len(call.Args) > 0 {
		if f := calleeObject(info, call); f != nil && f.Name() == "Sprintf" {
			return stringOf(info, call.Args[0])
		}
	}
	return ""
}

// ---- tiny parser for the formulas quoted in explanation messages ---------------------------

type fParser struct {
	toks []string
	pos  int
	bind func(sym string) (ratFunc, error)
}

func tokenizeFormula(s string) []string {
	var toks []string
	i := 0
	for i < len(s) {
		ch := s[i]
		switch {
		case ch == ' ':
			i++
		case strings.ContainsRune("+-*/(),", rune(ch)):
			toks = append(toks, string(ch))
			i++
		default:
			j := i
			for j < len(s) && !strings.ContainsRune("+-*/(), ", rune(s[j])) {
				j++
			}
			toks = append(toks, s[i:j])
			i = j
		}
	}
	return toks
}

func (p *fParser) peek() string {
	if p.pos < len(p.toks) {
		return p.toks[p.pos]
	}
	return ""
}

func (p *fParser) expr() (ratFunc, error) {
	l, err := p.term()
	if err != nil {
		return l, err
	}
	for p.peek() == "+" || p.peek() == "-" {
		op := p.peek()
		p.pos++
		r, err := p.term()
		if err != nil {
			return r, err
		}
		if op == "+" {
			l = rfAdd(l, r, 1)
		} else {
			l = rfAdd(l, r, -1)
		}
	}
	return l, nil
}

func (p *fParser) term() (ratFunc, error) {
	l, err := p.factor()
	if err != nil {
		return l, err
	}
	for p.peek() == "*" || p.peek() == "/" {
		op := p.peek()
		p.pos++
		r, err := p.factor()
		if err != nil {
			return r, err
		}
		if op == "*" {
			l = rfMul(l, r)
		} else {
			l = rfDiv(l, r)
		}
	}
	return l, nil
}

func (p *fParser) factor() (ratFunc, error) {
	t := p.peek()
	switch {
	case t == "":
		return ratFunc{}, fmt.Errorf("unexpected end of formula")
	case t == "(":
		p.pos++
		v, err := p.expr()
		if err != nil {
			return v, err
		}
		if p.peek() != ")" {
			return v, fmt.Errorf("missing )")
		}
		p.pos++
		return v, nil
	case t == "-":
		p.pos++
		v, err := p.factor()
		return rfMul(rfConst(big.NewRat(-1, 1)), v), err
	}
	p.pos++
	if r, ok := new(big.Rat).SetString(t); ok {
		return rfConst(r), nil
	}
	if p.peek() == "(" { // function application, uninterpreted
		p.pos++
		arg, err := p.expr()
		if err != nil {
			return arg, err
		}
		if p.peek() != ")" {
			return arg, fmt.Errorf("missing ) after %s(", t)
		}
		p.pos++
		name := strings.ToUpper(t[:1]) + t[1:]
		return rfAtom(atomName(name + "〈" + rfString(arg) + "〉")), nil
	}
	return p.bind(t)
}
