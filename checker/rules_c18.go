package main

import (
	"fmt"
	"go/token"
	"go/types"
	"strings"

	"golang.org/x/tools/go/ssa"
)

const pkgAnalysis = modPath + "/analysis"

func init() {
	registerProperty(&PropertyInfo{
		ID:    "C18",
		Title: "Analysis is total, deterministic and offset-correct on any bytes",
		Rules: []string{"C18.R1", "C18.R2", "C18.R3", "C18.R4", "C18.R5", "C18.R6", "C01.R4"},
		Decides: "structural necessary conditions, over every analysis component of the module: (R1) no token term and no returned token stream is built in a buffer owned by the component or by the package (a second Analyze call would rewrite the tokens of the first: not the same tokens every time, and terms indexed for one field change while the next field is analysed); (R2) every value stored into Token.PositionIncr is non-negative by construction (a constant >= 0, another token's increment, or sums of such); (R3) in the tokenizers a token whose term is the input re-sliced [s:e] carries exactly Start = s and End = e, and a token whose term comes from a segmenter carries End = Start + len(term); (R5) every x[len(x)-k] and x[..:len(x)-k] in the analysis packages is covered by a lower bound on len(x) carried through the preceding guards and shortenings (also through a local n that is kept equal to len(x)); (R4) the code reachable from the components contains no go statement, select, clock or random source, and iterates a map only where listed with a reason; (C01.R4) a field value that may be stored is analysed as a copy; (R6) no Tokenize / Filter / Analyze method of a component (nor a method of the same receiver it calls) writes a field, element or map entry of the component or of an object it owns, nor hands such an object to code outside the module that is not in the frozen table of read-only callees - one analyzer value serves all analysis workers and concurrent queries. ",
		NotCovered: "TOTALITY beyond R5 (indexes that are not taken from the end: loop indexes i+1, constant positions in rows returned by a library such as regexp.FindAllIndex or in fixed decomposition tables, third-party segmenters) and the numeric range of offsets produced by filters (shingles, n-grams, compound words) are NOT decided: they need facts about library results or a relational value-range analysis that is out of reach here; index-time/query-time agreement is decided only as far as R1 and R4 imply it.",
	})
	registerRule(&RuleInfo{ID: "C18.R1", Title: "tokens are not built in buffers owned by the component or the package", Floor: 50, Run: ruleC18R1,
		Covers: "every store to Token.Term and every returned TokenStream / []byte in the analysis packages"})
	registerRule(&RuleInfo{ID: "C18.R2", Title: "position increments are non-negative by construction", Floor: 10, Run: ruleC18R2,
		Covers: "every store to Token.PositionIncr in the module"})
	registerRule(&RuleInfo{ID: "C18.R3", Title: "a tokenizer's offsets are the bounds of the term it cut out", Floor: 4, Run: ruleC18R3,
		Covers: "every Token built in package analysis/tokenizer"})
	registerRule(&RuleInfo{ID: "C18.R4", Title: "analysis has no source of nondeterminism", Floor: 50, Run: ruleC18R4,
		Covers: "every function reachable from a Tokenizer, TokenFilter, CharFilter or Analyzer.Analyze inside the analysis packages"})
}

func analysisAllFuncs(c *Ctx) []*ssa.Function {
	var rv []*ssa.Function
	for _, fn := range c.SrcFuncs() {
		if strings.HasPrefix(funcPkgPath(fn), pkgAnalysis) {
			rv = append(rv, fn)
		}
	}
	return rv
}

// ownedBacking: the slice v may share its backing array with a field of the method's receiver
// or with a package variable (followed through re-slicing, append's first operand, phis and
// local cells). Fields of other objects (the token being rewritten, a local parser) do not count.
func ownedBacking(fn *ssa.Function, v ssa.Value, seen map[ssa.Value]bool) string {
	if v == nil || seen[v] {
		return ""
	}
	seen[v] = true
	// the receiver counts as "the component" only when its type is one: a tokenizer, a token or
	// character filter, or the analyzer itself (helper objects created per call and plain data
	// holders such as TokenFreq are not long-lived component state)
	var recv ssa.Value
	top := enclosingTop(fn)
	if top.Signature.Recv() != nil && len(top.Params) > 0 && isAnalysisComponent(top.Signature.Recv().Type()) {
		recv = top.Params[0]
	}
	switch x := v.(type) {
	case *ssa.Slice:
		return ownedBacking(fn, x.X, seen)
	case *ssa.Phi:
		for _, e := range x.Edges {
			if s := ownedBacking(fn, e, seen); s != "" {
				return s
			}
		}
	case *ssa.Call:
		if builtinName(x.Common()) == "append" {
			return ownedBacking(fn, x.Common().Args[0], seen)
		}
	case *ssa.ChangeType:
		return ownedBacking(fn, x.X, seen)
	case *ssa.Convert:
		return "" // string <-> []byte conversions copy
	case *ssa.UnOp:
		if u, ok := isLoad(x); ok {
			switch a := u.X.(type) {
			case *ssa.FieldAddr:
				if _, isSlice := u.Type().Underlying().(*types.Slice); !isSlice {
					return ""
				}
				root := addrRootLoads(a)
				if recv != nil && root == recv {
					return "field " + fieldVar(a).Name() + " of the component"
				}
				if fv, ok := root.(*ssa.FreeVar); ok && recv != nil {
					_ = fv // a closure of a method: the captured receiver
				}
			case *ssa.Global:
				if _, isSlice := u.Type().Underlying().(*types.Slice); isSlice {
					return "package variable " + a.Name()
				}
			case *ssa.Alloc:
				if a.Referrers() != nil {
					for _, r := range *a.Referrers() {
						if st, ok := r.(*ssa.Store); ok && st.Addr == ssa.Value(a) {
							if s := ownedBacking(fn, st.Val, seen); s != "" {
								return s
							}
						}
					}
				}
			}
		}
	}
	return ""
}

// addrRootLoads strips field/index steps and loads of pointers from an address.
func addrRootLoads(v ssa.Value) ssa.Value {
	for i := 0; i < 20; i++ {
		switch x := v.(type) {
		case *ssa.FieldAddr:
			v = x.X
		case *ssa.IndexAddr:
			v = x.X
		case *ssa.UnOp:
			if x.Op == token.MUL {
				v = x.X
			} else {
				return v
			}
		default:
			return v
		}
	}
	return v
}

func ruleC18R1(c *Ctx) {
	analysisComponentIfaces = []*types.Interface{c.Iface(pkgAnalysis, "Tokenizer"), c.Iface(pkgAnalysis, "TokenFilter"), c.Iface(pkgAnalysis, "CharFilter")}
	analysisAnalyzer = c.Named(pkgAnalysis, "Analyzer")
	tok := c.Named(pkgAnalysis, "Token")
	fTerm := c.Field(pkgAnalysis, "Token", "Term")
	n := 0
	for _, fn := range analysisAllFuncs(c) {
		eachInstr(fn, func(in ssa.Instruction) {
			switch x := in.(type) {
			case *ssa.Store:
				fa, ok := x.Addr.(*ssa.FieldAddr)
				if !ok || fieldVar(fa) != fTerm {
					return
				}
				n++
				key := fmt.Sprintf("term #%d stored in %s", n, FuncName(fn))
				owner := ownedBacking(fn, x.Val, map[ssa.Value]bool{})
				c.Check(owner == "", key, c.Pos(x.Pos()), "not backed by a buffer of the component or the package",
					"the token's term is a slice of "+owner+": the next call of the component overwrites the terms it handed out before (tokens of one Analyze change when another text is analysed)")
			case *ssa.Return:
				for _, rv := range x.Results {
					sl, ok := rv.Type().Underlying().(*types.Slice)
					if !ok {
						continue
					}
					isStream := false
					if p, ok := sl.Elem().(*types.Pointer); ok && namedOf(p) == tok {
						isStream = true
					}
					if b, ok := sl.Elem().Underlying().(*types.Basic); ok && b.Kind() == types.Byte {
						isStream = true
					}
					if !isStream {
						continue
					}
					n++
					key := fmt.Sprintf("list #%d returned by %s", n, FuncName(fn))
					owner := ownedBacking(fn, rv, map[ssa.Value]bool{})
					c.Check(owner == "", key, c.Pos(x.Pos()), "not backed by a buffer of the component or the package",
						"the returned list is a slice of "+owner+": the next call of the component overwrites what this call returned")
				}
			}
		})
	}
	_ = tok
}

func ruleC18R2(c *Ctx) {
	fIncr := c.Field(pkgAnalysis, "Token", "PositionIncr")
	var nonneg func(v ssa.Value, seen map[ssa.Value]bool) bool
	nonneg = func(v ssa.Value, seen map[ssa.Value]bool) bool {
		if seen[v] {
			return true // a cycle through a loop phi adds only what the other operands add
		}
		seen[v] = true
		switch x := v.(type) {
		case *ssa.Const:
			k, ok := constInt(x)
			return ok && k >= 0
		case *ssa.Phi:
			for _, e := range x.Edges {
				if !nonneg(e, seen) {
					return false
				}
			}
			return true
		case *ssa.BinOp:
			if x.Op == token.ADD || x.Op == token.MUL {
				return nonneg(x.X, seen) && nonneg(x.Y, seen)
			}
			return false
		case *ssa.UnOp:
			if u, ok := isLoad(x); ok {
				if fa, ok := u.X.(*ssa.FieldAddr); ok && fieldVar(fa) == fIncr {
					return true // another token's increment (inductively non-negative)
				}
				if al, ok := u.X.(*ssa.Alloc); ok && al.Referrers() != nil {
					okAll, any := true, false
					for _, r := range *al.Referrers() {
						if st, ok := r.(*ssa.Store); ok && st.Addr == ssa.Value(al) {
							any = true
							if !nonneg(st.Val, seen) {
								okAll = false
							}
						}
					}
					return okAll && any
				}
			}
			return false
		case *ssa.Call:
			if builtinName(x.Common()) == "len" {
				return true
			}
			return false
		case *ssa.Convert:
			return nonneg(x.X, seen)
		}
		return false
	}
	n := 0
	for _, fn := range c.SrcFuncs() {
		for _, st := range storesToField(fn, fIncr) {
			n++
			key := fmt.Sprintf("position increment #%d stored in %s", n, FuncName(fn))
			c.Check(nonneg(st.Val, map[ssa.Value]bool{}), key, c.Pos(st.Pos()), "a constant >= 0, another token's increment, or a sum of such",
				"the value stored into Token.PositionIncr is not non-negative by construction (a subtraction, a decoded value or a call result): positions of later tokens can move backwards")
		}
	}
}

func ruleC18R3(c *Ctx) {
	tok := c.Named(pkgAnalysis, "Token")
	fTerm := c.Field(pkgAnalysis, "Token", "Term")
	fStart := c.Field(pkgAnalysis, "Token", "Start")
	fEnd := c.Field(pkgAnalysis, "Token", "End")
	same := func(a, b ssa.Value) bool {
		if a == nil || b == nil {
			ka, oka := constInt(a)
			kb, okb := constInt(b)
			if a == nil && okb && kb == 0 || b == nil && oka && ka == 0 {
				return true
			}
			return a == nil && b == nil
		}
		return a == b || sameExpr(a, b, 0)
	}
	n := 0
	for _, fn := range c.FuncsIn(pkgAnalysis + "/tokenizer") {
		// token objects: composite literals, or elements of a token array being filled
		objs := map[ssa.Value]map[*types.Var]ssa.Value{}
		eachInstr(fn, func(in ssa.Instruction) {
			st, ok := in.(*ssa.Store)
			if !ok {
				return
			}
			fa, ok := st.Addr.(*ssa.FieldAddr)
			if !ok || namedOf(fa.X.Type()) != tok {
				return
			}
			fv := fieldVar(fa)
			if fv != fTerm && fv != fStart && fv != fEnd {
				return
			}
			if objs[fa.X] == nil {
				objs[fa.X] = map[*types.Var]ssa.Value{}
			}
			objs[fa.X][fv] = st.Val
		})
		for obj, f := range objs {
			term, has := f[fTerm]
			if !has {
				continue
			}
			n++
			key := fmt.Sprintf("token #%d built in %s", n, FuncName(fn))
			start, end := f[fStart], f[fEnd]
			pos := c.Pos(obj.Pos())
			var param ssa.Value
			if len(fn.Params) > 0 {
				param = fn.Params[len(fn.Params)-1]
			}
			// the term as a re-slicing of something: directly, or through a local (matchBytes := input[a:b])
			sl, isSlice := term.(*ssa.Slice)
			switch {
			case isSlice:
				hi := sl.High
				// the offsets are offsets into the text the tokenizer was given: the slice must be taken
				// from that text itself, not from a trimmed copy of it
				if param != nil && sl.X != param && isByteSlice(param.Type()) {
					c.Violate(key, pos, "the token's term is cut out of a re-sliced or trimmed copy of the input, so Start/End are not offsets into the text the tokenizer saw (e.g. after trimming a prefix every offset is too small)")
					continue
				}
				okS := same(start, sl.Low)
				okE := hi != nil && same(end, hi)
				if hi == nil {
					// input[s:] : End must be len(input)
					if call, ok := end.(*ssa.Call); ok && builtinName(call.Common()) == "len" && same(call.Common().Args[0], sl.X) {
						okE = true
					}
				}
				c.Check(okS && okE, key, pos, "Term = x[s:e], Start = s, End = e", fmt.Sprintf("the token's term is a re-slicing but its offsets are not the bounds of that slice (Start is the low bound: %v, End is the high bound: %v): the term is not the input at its offsets", okS, okE))
			case term == param:
				k, okc := constInt(start)
				okE := false
				if call, ok := end.(*ssa.Call); ok && builtinName(call.Common()) == "len" && call.Common().Args[0] == param {
					okE = true
				}
				c.Check(okc && k == 0 && okE, key, pos, "Term = input, Start = 0, End = len(input)", "the whole input is the term but the offsets are not 0 and len(input)")
			default:
				// the term comes from elsewhere (a segmenter): End = Start + len(Term)
				okLen := false
				if b, ok := end.(*ssa.BinOp); ok && b.Op == token.ADD {
					for _, pair := range [][2]ssa.Value{{b.X, b.Y}, {b.Y, b.X}} {
						if call, ok := pair[1].(*ssa.Call); ok && builtinName(call.Common()) == "len" && same(call.Common().Args[0], term) && same(pair[0], start) {
							okLen = true
						}
					}
				}
				c.Check(okLen, key, pos, "End = Start + len(Term)", "the token's End is not Start + len(Term): the offsets do not delimit the term")
			}
		}
	}
}

// mapRangeAllowed: map iterations inside the analysis code whose result does not depend on
// the iteration order (one line of reason each).
var mapRangeAllowed = map[string]string{
	"lookupScript": "the Unicode script range tables are pairwise disjoint: at most one key matches a rune",
}

func ruleC18R4(c *Ctx) {
	var roots []*ssa.Function
	for _, im := range [][2]string{{"Tokenizer", "Tokenize"}, {"TokenFilter", "Filter"}, {"CharFilter", "Filter"}} {
		m := c.IfaceMethod(pkgAnalysis, im[0], im[1])
		it := c.Obj(pkgAnalysis, im[0]).Type()
		roots = append(roots, c.Light().Impls(m, it)...)
	}
	roots = append(roots, c.Method(pkgAnalysis, "Analyzer", "Analyze"), c.Func(pkgAnalysis, "TokenFrequency"))
	var fns []*ssa.Function
	for f := range c.Light().Reach(roots...) {
		if f.Blocks != nil && strings.HasPrefix(funcPkgPath(f), pkgAnalysis) {
			fns = append(fns, f)
		}
	}
	sortFuncs(c.Program, fns)
	for _, fn := range fns {
		var bad []string
		eachInstr(fn, func(in ssa.Instruction) {
			switch x := in.(type) {
			case *ssa.Range:
				if _, isMap := x.X.Type().Underlying().(*types.Map); isMap {
					if _, ok := mapRangeAllowed[fn.Name()]; !ok {
						// order-insensitive bodies (only map/set updates and counters) are fine
						if mapRangeOrderMatters(x) {
							bad = append(bad, "iterates a map at "+c.Pos(in.Pos())+" and what it appends or returns depends on the iteration order")
						}
					}
				}
			case *ssa.Select:
				bad = append(bad, "select at "+c.Pos(in.Pos()))
			case *ssa.Go:
				bad = append(bad, "go statement at "+c.Pos(in.Pos()))
			case *ssa.Call:
				if f := x.Common().StaticCallee(); f != nil && f.Pkg != nil {
					p := f.Pkg.Pkg.Path()
					if p == "math/rand" || strings.HasPrefix(p, "math/rand/") || p == "crypto/rand" || p == "time" && (f.Name() == "Now" || f.Name() == "Since") {
						bad = append(bad, "call of "+p+"."+f.Name()+" at "+c.Pos(in.Pos()))
					}
				}
			}
		})
		c.Check(len(bad) == 0, "no source of nondeterminism in "+FuncName(fn), c.Pos(fn.Pos()), "no order-dependent map iteration, select, go, clock or random source", strings.Join(bad, "; "))
	}
}

// mapRangeOrderMatters: inside the loop over the map something is appended to a slice, sent,
// or a value is returned (the first match wins).
func mapRangeOrderMatters(rg *ssa.Range) bool {
	var next *ssa.Next
	if rg.Referrers() != nil {
		for _, r := range *rg.Referrers() {
			if nx, ok := r.(*ssa.Next); ok {
				next = nx
			}
		}
	}
	if next == nil {
		return true
	}
	h := enclosingLoopHeader(next.Block())
	if h == nil {
		h = next.Block()
	}
	loop := naturalLoop(h)
	matters := false
	for b := range loop {
		for _, in := range b.Instrs {
			switch x := in.(type) {
			case *ssa.Call:
				if builtinName(x.Common()) == "append" {
					matters = true
				}
			case *ssa.Send:
				matters = true
			}
		}
		for _, s := range b.Succs {
			if !loop[s] {
				if _, isRet := s.Instrs[len(s.Instrs)-1].(*ssa.Return); isRet && s != h && len(s.Preds) == 1 {
					matters = true // return from inside the loop
				}
			}
		}
	}
	return matters
}

var analysisComponentIfaces []*types.Interface
var analysisAnalyzer *types.Named

func isAnalysisComponent(t types.Type) bool {
	if n := namedOf(t); n != nil && analysisAnalyzer != nil && n == analysisAnalyzer {
		return true
	}
	for _, it := range analysisComponentIfaces {
		if types.Implements(t, it) {
			return true
		}
		if _, isPtr := t.(*types.Pointer); !isPtr && types.Implements(types.NewPointer(t), it) {
			return true
		}
	}
	return false
}

