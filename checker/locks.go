package main

import (
	"go/types"

	"golang.org/x/tools/go/ssa"
)

// lockStep interprets instruction in with respect to the mutex field gv and updates the
// rule's flag bits: held (read or write), write-held, and "an unlock is deferred". A deferred
// Unlock takes effect at the function's RunDefers. It returns "lock", "unlock" or "".
func lockStep(in ssa.Instruction, gv *types.Var, st *PState, fHeld, fWrite, fDeferred uint64) string {
	if _, isRun := in.(*ssa.RunDefers); isRun {
		if st.Flags&fDeferred != 0 {
			st.Flags &^= fHeld | fWrite | fDeferred
			return "unlock"
		}
		return ""
	}
	cc := callOf(in)
	if cc == nil {
		return ""
	}
	kind := lockCallKind(cc, gv)
	if kind == "" {
		return ""
	}
	if _, isDefer := in.(*ssa.Defer); isDefer {
		if kind == "Unlock" || kind == "RUnlock" {
			st.Flags |= fDeferred
		}
		return ""
	}
	switch kind {
	case "Lock":
		st.Flags |= fHeld | fWrite
		return "lock"
	case "RLock":
		st.Flags |= fHeld
		return "lock"
	case "Unlock", "RUnlock":
		st.Flags &^= fHeld | fWrite
		return "unlock"
	}
	return ""
}
