package main

import (
	"go/token"
	"go/types"

	"golang.org/x/tools/go/ssa"
)

// IdxAnchors: semantic anchors of package index used by many rules, resolved through
// types (never through text). A missing anchor panics with unresolvedAnchor.
type IdxAnchors struct {
	Writer, Snapshot, SegSnap, SegWrapper, SegIntro, PersistIntro, SegMerge, Batch *types.Named

	WRoot, WRootPersisted, WPersistedCallbacks, WRootLock, WIntroductions, WCloseCh, WNextSegmentID, WDeletionPolicy, WDirectory, WConfig, WStats *types.Var
	SnapSegment, SnapOffsets, SnapEpoch, SnapRefs, SnapParent                                                                                     *types.Var
	SSID, SSSegment, SSDeleted                                                                                                                    *types.Var
	SIPersisted, SICallback, SIApplied, SIObsoletes, SIIDTerms, SIData                                                                            *types.Var
	BatchCallback                                                                                                                                 *types.Var

	DirPersist, DirLoad, DirRemove, DirList, DirLock, DirUnlock, DirSetup, DirSync *types.Func
	WriteTo                                                                        *types.Func
	DPCommit, DPCleanup                                                            *types.Func

	KindSnapshot, KindSegment string

	OpenWriter, ReplaceRoot, CurrentSnapshot *ssa.Function
}

func (p *Program) Idx() *IdxAnchors {
	if p.idx != nil {
		return p.idx
	}
	a := &IdxAnchors{}
	a.Writer = p.Named(pkgIndex, "Writer")
	a.Snapshot = p.Named(pkgIndex, "Snapshot")
	a.SegSnap = p.Named(pkgIndex, "segmentSnapshot")
	a.SegWrapper = p.Named(pkgIndex, "segmentWrapper")
	a.SegIntro = p.Named(pkgIndex, "segmentIntroduction")
	a.PersistIntro = p.Named(pkgIndex, "persistIntroduction")
	a.SegMerge = p.Named(pkgIndex, "segmentMerge")
	a.Batch = p.Named(pkgIndex, "Batch")
	f := func(t, n string) *types.Var { return p.Field(pkgIndex, t, n) }
	a.WRoot, a.WRootPersisted, a.WPersistedCallbacks = f("Writer", "root"), f("Writer", "rootPersisted"), f("Writer", "persistedCallbacks")
	a.WRootLock, a.WIntroductions, a.WCloseCh = f("Writer", "rootLock"), f("Writer", "introductions"), f("Writer", "closeCh")
	a.WNextSegmentID, a.WDeletionPolicy, a.WDirectory = f("Writer", "nextSegmentID"), f("Writer", "deletionPolicy"), f("Writer", "directory")
	a.WConfig, a.WStats = f("Writer", "config"), f("Writer", "stats")
	a.SnapSegment, a.SnapOffsets, a.SnapEpoch, a.SnapRefs, a.SnapParent = f("Snapshot", "segment"), f("Snapshot", "offsets"), f("Snapshot", "epoch"), f("Snapshot", "refs"), f("Snapshot", "parent")
	a.SSID, a.SSSegment, a.SSDeleted = f("segmentSnapshot", "id"), f("segmentSnapshot", "segment"), f("segmentSnapshot", "deleted")
	a.SIPersisted, a.SICallback, a.SIApplied = f("segmentIntroduction", "persisted"), f("segmentIntroduction", "persistedCallback"), f("segmentIntroduction", "applied")
	a.SIObsoletes, a.SIIDTerms, a.SIData = f("segmentIntroduction", "obsoletes"), f("segmentIntroduction", "idTerms"), f("segmentIntroduction", "data")
	a.BatchCallback = f("Batch", "persistedCallback")
	m := func(n string) *types.Func { return p.IfaceMethod(pkgIndex, "Directory", n) }
	a.DirPersist, a.DirLoad, a.DirRemove, a.DirList = m("Persist"), m("Load"), m("Remove"), m("List")
	a.DirLock, a.DirUnlock, a.DirSetup, a.DirSync = m("Lock"), m("Unlock"), m("Setup"), m("Sync")
	a.WriteTo = p.IfaceMethod(pkgIndex, "WriterTo", "WriteTo")
	a.DPCommit = p.IfaceMethod(pkgIndex, "DeletionPolicy", "Commit")
	a.DPCleanup = p.IfaceMethod(pkgIndex, "DeletionPolicy", "Cleanup")
	a.KindSnapshot = p.ConstString(pkgIndex, "ItemKindSnapshot")
	a.KindSegment = p.ConstString(pkgIndex, "ItemKindSegment")
	a.OpenWriter = p.Func(pkgIndex, "OpenWriter")
	a.ReplaceRoot = p.Method(pkgIndex, "Writer", "replaceRoot")
	a.CurrentSnapshot = p.Method(pkgIndex, "Writer", "currentSnapshot")
	p.idx = a
	return a
}

// isDirCall: call of Directory method m (invoke or concrete implementation) whose first
// argument (the item kind) is the given constant; kind "" matches any kind.
func (a *IdxAnchors) isDirCall(cc *ssa.CallCommon, m *types.Func, kind string) bool {
	if !callsIfaceMethod(cc, m) {
		return false
	}
	if kind == "" {
		return true
	}
	args := cc.Args
	if !cc.IsInvoke() && len(args) > 0 {
		args = args[1:] // receiver
	}
	if len(args) == 0 {
		return false
	}
	s, ok := constString(args[0])
	return ok && s == kind
}

// dirArgs returns the arguments of a Directory call without the receiver.
func dirArgs(cc *ssa.CallCommon) []ssa.Value {
	if !cc.IsInvoke() && len(cc.Args) > 0 {
		return cc.Args[1:]
	}
	return cc.Args
}

// loadsField: v is a load of field fv (of any base).
func loadsField(v ssa.Value, fv *types.Var) bool {
	f, _ := loadedField(v)
	return f != nil && f == fv
}

// isFieldAddr: v is &x.fv.
func isFieldAddr(v ssa.Value, fv *types.Var) bool {
	fa, ok := v.(*ssa.FieldAddr)
	return ok && fieldVar(fa) == fv
}

// dependsOnField: backward slice of v reaches a load/address of one of the fields.
func dependsOnField(v ssa.Value, fields ...*types.Var) bool {
	return dependsOn(v, func(x ssa.Value) bool {
		for _, f := range fields {
			if isFieldAddr(x, f) {
				return true
			}
			if fx, ok := x.(*ssa.Field); ok && fieldVar(fx) == f {
				return true
			}
		}
		return false
	})
}

// storesToField lists the Store instructions in fn whose address is &x.fv.
func storesToField(fn *ssa.Function, fv *types.Var) []*ssa.Store {
	var rv []*ssa.Store
	eachInstr(fn, func(in ssa.Instruction) {
		if st, ok := in.(*ssa.Store); ok && isFieldAddr(st.Addr, fv) {
			rv = append(rv, st)
		}
	})
	return rv
}

// isLoad reports a pointer dereference.
func isLoad(v ssa.Value) (*ssa.UnOp, bool) {
	u, ok := v.(*ssa.UnOp)
	return u, ok && u.Op == token.MUL
}

// readsAckFields: the function loads Writer.rootPersisted or Writer.persistedCallbacks (the persister's grab).
func readsAckFields(fn *ssa.Function, a *IdxAnchors) bool {
	found := false
	eachInstr(fn, func(in ssa.Instruction) {
		if u, ok := in.(*ssa.UnOp); ok && u.Op == token.MUL && (isFieldAddr(u.X, a.WRootPersisted) || isFieldAddr(u.X, a.WPersistedCallbacks)) {
			found = true
		}
	})
	return found
}
