package main

import (
	"fmt"
	"go/types"

	"golang.org/x/tools/go/ssa"
)

// C16.R5: the document value reader visits a field once per occurrence in the field list
// it is opened with, and every visited value is appended to the hit's doc values. A field
// list with a repetition (sort field also aggregated, two aggregations over one field,
// a collector used twice) therefore feeds every value several times: sums and counts come
// out multiplied. Every list that reaches DocumentMatch.LoadDocumentValues must have gone
// through a uniqueness filter: a function []string -> []string that appends an element to
// its result only on the miss edge of a lookup of that element in a set it maintains.

func init() {
	registerRule(&RuleInfo{ID: "C16.R5", Title: "field lists handed to the doc-value reader are free of repetitions", Floor: 2, Run: ruleC16R5,
		Covers: "every store to a collector field that is later passed to DocumentMatch.LoadDocumentValues"})
}

// isUniqueFilter: fn is func([]string) []string and every append to the result is on the
// miss edge of a map lookup keyed by the appended element, the key being recorded in the map.
func isUniqueFilter(fn *ssa.Function) bool {
	if fn == nil || fn.Blocks == nil || fn.Signature.Params().Len() != 1 || fn.Signature.Results().Len() != 1 {
		return false
	}
	isStrSlice := func(t types.Type) bool {
		s, ok := t.Underlying().(*types.Slice)
		if !ok {
			return false
		}
		b, ok := s.Elem().Underlying().(*types.Basic)
		return ok && b.Kind() == types.String
	}
	if !isStrSlice(fn.Signature.Params().At(0).Type()) || !isStrSlice(fn.Signature.Results().At(0).Type()) {
		return false
	}
	appends, ok := 0, true
	eachInstr(fn, func(in ssa.Instruction) {
		ci, isCall := in.(*ssa.Call)
		if !isCall || builtinName(ci.Common()) != "append" {
			return
		}
		appends++
		elems := appendedElems(ci)
		if len(elems) != 1 {
			ok = false // append(x, y...) copies a whole list unchecked
			return
		}
		e := elems[0]
		guarded, recorded := false, false
		eachInstr(fn, func(g ssa.Instruction) {
			switch x := g.(type) {
			case *ssa.If:
				// `_, ok := seen[e]` -> If ok ; or `seen[e]` (bool map)
				var lk *ssa.Lookup
				missEdge := 1
				switch cnd := x.Cond.(type) {
				case *ssa.Extract:
					lk, _ = cnd.Tuple.(*ssa.Lookup)
				case *ssa.Lookup:
					lk = cnd
				case *ssa.UnOp:
					if ex, isEx := cnd.X.(*ssa.Extract); isEx {
						lk, _ = ex.Tuple.(*ssa.Lookup)
					} else if l2, isL := cnd.X.(*ssa.Lookup); isL {
						lk = l2
					}
					missEdge = 0
				}
				if lk == nil {
					return
				}
				if _, isMap := lk.X.Type().Underlying().(*types.Map); !isMap {
					return
				}
				if (lk.Index == e || sameBase(lk.Index, e)) && edgeDominates(x, missEdge, ci.Block()) {
					guarded = true
				}
			case *ssa.MapUpdate:
				if x.Key == e || sameBase(x.Key, e) {
					recorded = true
				}
			}
		})
		if !guarded || !recorded {
			ok = false
		}
	})
	return ok && appends > 0
}

func ruleC16R5(c *Ctx) {
	loadDV := c.Method(pkgSearch, "DocumentMatch", "LoadDocumentValues")
	// fields of collector structs that are passed as the field list
	listFields := map[*types.Var]bool{}
	for _, fn := range c.SrcFuncs() {
		eachInstr(fn, func(in ssa.Instruction) {
			ci, ok := in.(*ssa.Call)
			if !ok || ci.Common().StaticCallee() != loadDV || len(ci.Common().Args) < 3 {
				return
			}
			if f, _ := loadedField(ci.Common().Args[2]); f != nil {
				listFields[f] = true
			} else {
				c.Undecided("field list of LoadDocumentValues in "+FuncName(fn), c.Pos(ci.Pos()), "the field list is not a field of the collector")
			}
		})
	}
	n := 0
	for _, fn := range c.SrcFuncs() {
		eachInstr(fn, func(in ssa.Instruction) {
			st, ok := in.(*ssa.Store)
			if !ok {
				return
			}
			fa, ok := st.Addr.(*ssa.FieldAddr)
			if !ok || !listFields[fieldVar(fa)] {
				return
			}
			n++
			key := fmt.Sprintf("field list #%d (%s) assigned in %s is free of repetitions", n, fieldVar(fa).Name(), FuncName(fn))
			okv := isNilConst(st.Val)
			if call, isCall := st.Val.(*ssa.Call); isCall && isUniqueFilter(call.Common().StaticCallee()) {
				okv = true
			}
			c.Check(okv, key, c.Pos(st.Pos()), "the list is the result of a uniqueness filter",
				"the list of fields to load is assembled without removing repetitions: when the sort field is also aggregated, or two aggregations read the same field, the reader visits that field once per occurrence and every value is fed to the aggregations several times (sum and count multiplied)")
		})
	}
}
