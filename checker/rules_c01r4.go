package main

import (
	"fmt"
	"go/types"

	"golang.org/x/tools/go/ssa"
)

// C01.R4: a stored field value is never handed to an analyzer: the token filters of the
// bundled analyzers rewrite token terms in place (lower-casing, normalisation), and the
// terms are sub-slices of the analyzer's input, so analysing the stored bytes themselves
// changes what the Reader later returns as the stored value. On every path on which the
// field is not known to be unstored, the input of Analyzer.Analyze must be a slice
// allocated in the function and filled by copy() from the value.

func init() {
	registerRule(&RuleInfo{ID: "C01.R4", Title: "stored values are copied before in-place analysis", Floor: 1, Run: ruleC01R4,
		Covers: "every invocation of an Analyzer in the root package whose input derives from a field value"})
}

func ruleC01R4(c *Ctx) {
	anIface := c.Obj(modPath, "Analyzer").Type()
	fValue := c.Field(modPath, "TermField", "value")
	isAnalyze := func(cc *ssa.CallCommon) bool {
		if cc == nil {
			return false
		}
		if cc.IsInvoke() {
			return cc.Method.Name() == "Analyze" && types.Identical(cc.Value.Type(), anIface)
		}
		return false
	}
	isStoreQuery := func(cc *ssa.CallCommon) bool {
		f := cc.StaticCallee()
		if f == nil || f.Name() != "Store" || f.Signature.Results().Len() != 1 || funcPkgPath(f) != modPath {
			return false
		}
		b, ok := f.Signature.Results().At(0).Type().Underlying().(*types.Basic)
		return ok && b.Kind() == types.Bool
	}
	n := 0
	for _, fn := range c.FuncsIn(modPath) {
		var sites []*ssa.Call
		eachInstr(fn, func(in ssa.Instruction) {
			if ci, ok := in.(*ssa.Call); ok && isAnalyze(ci.Common()) {
				// only inputs that can be a field's value (query texts are converted strings: fresh)
				if dependsOnFieldValue(ci.Common().Args[0], fValue) {
					sites = append(sites, ci)
				}
			}
		})
		for _, site := range sites {
			n++
			key := fmt.Sprintf("analyzer input #%d in %s", n, FuncName(fn))
			const (
				fNotStored uint64 = 1 << iota
				fCopied
			)
			var problems []string
			// helpers of the field type are followed (the copy may live in a method that returns the
			// bytes to analyse): a helper's return is "fresh" when it returns a slice it allocated and
			// filled by copy() on that path
			const fFreshRet uint64 = 1 << 8
			sm := &Summarizer{}
			sm.Follow = func(f *ssa.Function) bool {
				return f != fn && funcPkgPath(f) == modPath && f.Signature.Recv() != nil && f.Name() != "Store" && f.Name() != "Value"
			}
			sm.SiteOutcomes = func(ci ssa.CallInstruction, st *PState) []Outcome {
				if isStoreQuery(ci.Common()) {
					return []Outcome{{Results: []Tri{TriYes}}, {Results: []Tri{TriNo}, Flags: fNotStored}}
				}
				return nil
			}
			sm.OnInstr = func(f *ssa.Function, in ssa.Instruction, st *PState) bool {
				if ci, ok := in.(*ssa.Call); ok && builtinName(ci.Common()) == "copy" {
					if _, isMk := st.Canon(ci.Common().Args[0]).(*ssa.MakeSlice); isMk && dependsOnFieldValue(ci.Common().Args[1], fValue) {
						st.Flags |= fCopied
					}
				}
				if r, ok := in.(*ssa.Return); ok && f != fn && len(r.Results) == 1 {
					if _, isMk := st.Canon(r.Results[0]).(*ssa.MakeSlice); isMk && st.Flags&fCopied != 0 {
						st.Flags |= fFreshRet
					}
				}
				return true
			}
			ex := sm.Explorer(fn)
			baseOn := ex.OnInstr
			ex.OnInstr = func(in ssa.Instruction, st *PState) bool {
				if baseOn != nil {
					baseOn(in, st)
				}
				if in != ssa.Instruction(site) {
					return true
				}
				arg := st.Canon(site.Common().Args[0])
				if st.Flags&fNotStored != 0 {
					return true
				}
				if call, isCall := arg.(*ssa.Call); isCall && call.Common().StaticCallee() != nil && sm.Follow(call.Common().StaticCallee()) {
					if st.Flags&fFreshRet == 0 {
						problems = append(problems, "a path on which the field may be stored analyses what "+FuncName(call.Common().StaticCallee())+" returned without that being a fresh copy of the value")
					}
					return true
				}
				_, isMk := arg.(*ssa.MakeSlice)
				switch {
				case !isMk:
					problems = append(problems, "a path on which the field may be stored hands the field's own value bytes to the analyzer: in-place token filters rewrite the stored value")
				case st.Flags&fCopied == 0:
					problems = append(problems, "the slice handed to the analyzer is allocated here but not filled by copy() from the value before the call")
				}
				return true
			}
			ex.Run()
			if ex.Exceeded {
				c.Undecided(key, c.Pos(site.Pos()), "path exploration did not finish")
				continue
			}
			c.Check(len(problems) == 0, key, c.Pos(site.Pos()), "on every path where Store() is not known false the input is a fresh copy of the value", uniqJoin(problems))
		}
	}
}

// dependsOnFieldValue: v derives from a load of the field (directly or through a one-result getter).
func dependsOnFieldValue(v ssa.Value, f *types.Var) bool {
	return dependsOn(v, func(y ssa.Value) bool {
		fa, ok := y.(*ssa.FieldAddr)
		return ok && fieldVar(fa) == f
	})
}
