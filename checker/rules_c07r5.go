package main

import (
	"fmt"
	"go/types"
	"strings"

	"golang.org/x/tools/go/ssa"
)

// C07.R5: pending cursors are not thrown away. The searchers keep the children that form
// the current candidate in a list field and later iterate that list to advance them or to
// put them back on the heap. A loop over a list field that was emptied (`x.f = x.f[:0]`)
// on every path to the loop, with nothing in between that could have refilled it, never
// runs: the children in the list are silently dropped from the search and every later
// document only they match is missed. (A contradiction rule: either the reset or the loop
// is wrong.)

func init() {
	registerRule(&RuleInfo{ID: "C07.R5", Title: "no loop over a cursor list that was just emptied", Floor: 0, Run: ruleC07R5,
		Covers: "every range loop over a slice field in search/searcher and index that is reached from a truncation of the same field"})
}

func ruleC07R5(c *Ctx) {
	n := 0
	var fns []*ssa.Function
	for _, fn := range c.SrcFuncs() {
		p := funcPkgPath(fn)
		if p == pkgIndex || strings.HasPrefix(p, pkgSearch) {
			fns = append(fns, fn)
		}
	}
	for _, fn := range fns {
		// truncations  x.f = x.f[:0]
		type trunc struct {
			st   *ssa.Store
			fa   *ssa.FieldAddr
			path string
		}
		var truncs []trunc
		eachInstr(fn, func(in ssa.Instruction) {
			st, ok := in.(*ssa.Store)
			if !ok {
				return
			}
			fa, ok := st.Addr.(*ssa.FieldAddr)
			if !ok {
				return
			}
			sl, ok := st.Val.(*ssa.Slice)
			if !ok {
				return
			}
			if k, isC := constInt(sl.High); !isC || k != 0 {
				return
			}
			if p := accessPath(fa); p != "" {
				truncs = append(truncs, trunc{st, fa, p})
			}
		})
		if len(truncs) == 0 {
			continue
		}
		// range loops over a field: a load of the field that is both measured with len() and indexed
		eachInstr(fn, func(in ssa.Instruction) {
			ld, ok := isLoad2(in)
			if !ok {
				return
			}
			fa, ok := ld.X.(*ssa.FieldAddr)
			if !ok {
				return
			}
			if _, isSlice := ld.Type().Underlying().(*types.Slice); !isSlice || ld.Referrers() == nil {
				return
			}
			hasLen, hasIdx := false, false
			for _, r := range *ld.Referrers() {
				switch x := r.(type) {
				case *ssa.Call:
					if builtinName(x.Common()) == "len" {
						hasLen = true
					}
				case *ssa.IndexAddr:
					if _, isPhi := x.Index.(*ssa.Phi); isPhi {
						hasIdx = true
					} else if _, isBin := x.Index.(*ssa.BinOp); isBin {
						hasIdx = true
					}
				}
			}
			if !hasLen || !hasIdx {
				return
			}
			path := accessPath(fa)
			if path == "" {
				return
			}
			for _, t := range truncs {
				if t.path != path {
					continue
				}
				n++
				key := fmt.Sprintf("loop #%d over %s in %s is not over a list emptied just before", n, fieldVar(fa).Name(), FuncName(fn))
				// does the truncation reach the loop on every path, unrefilled?
				dom := t.st.Block() == ld.Block() && instrIndex(t.st) < instrIndex(ld) || t.st.Block() != ld.Block() && t.st.Block().Dominates(ld.Block())
				if !dom {
					c.OK(key, c.Pos(ld.Pos()), "the truncation does not dominate the loop")
					continue
				}
				refilled := false
				base := strings.TrimSuffix(path, ".&"+fieldVar(fa).Name())
				eachInstr(fn, func(k ssa.Instruction) {
					if refilled || k == ssa.Instruction(t.st) {
						return
					}
					isKill := false
					switch y := k.(type) {
					case *ssa.Store:
						if accessPath(y.Addr) == path {
							isKill = true
						}
					case *ssa.Call:
						if builtinName(y.Common()) != "" {
							break
						}
						cc := y.Common()
						vals := append([]ssa.Value{}, cc.Args...)
						if cc.IsInvoke() {
							vals = append(vals, cc.Value)
						}
						for _, a := range vals {
							ap := accessPath(stripIface(a))
							if ap != "" && (ap == base || strings.HasPrefix(base, ap+".") || ap == "*"+base) {
								isKill = true
							}
						}
					}
					if !isKill {
						return
					}
					// between the truncation and the loop?
					kb, tb, lb := k.Block(), t.st.Block(), ld.Block()
					switch {
					case kb == tb && kb == lb:
						refilled = instrIndex(k) > instrIndex(t.st) && instrIndex(k) < instrIndex(ld)
					case kb == tb:
						refilled = instrIndex(k) > instrIndex(t.st)
					case kb == lb:
						refilled = instrIndex(k) < instrIndex(ld) || reachAvoiding(lb.Succs[0], lb, tb) && false
					default:
						refilled = reachAvoiding(tb, kb, nil) && reachAvoiding(kb, lb, tb) && kb != tb
					}
				})
				c.Check(refilled, key, c.Pos(ld.Pos()), "something between the truncation and the loop can refill the list",
					fmt.Sprintf("the list was emptied at %s on every path to this loop and nothing in between can refill it: the loop never runs and the cursors that were in the list are dropped from the search", c.Pos(t.st.Pos())))
			}
		})
	}
}

// isLoad2: in is a load instruction (*addr).
func isLoad2(in ssa.Instruction) (*ssa.UnOp, bool) {
	v, ok := in.(ssa.Value)
	if !ok {
		return nil, false
	}
	return isLoad(v)
}
