package main

import (
	"go/token"
	"go/types"
	"sort"
	"strconv"
	"strings"

	"golang.org/x/tools/go/ssa"
)

// Tri is a three-valued fact about a value on one path:
// +1 = non-nil / true, -1 = nil / false, 0 = unknown.
type Tri int8

const (
	TriUnknown Tri = 0
	TriYes     Tri = 1
	TriNo      Tri = -1
)

// PState is the abstract state along one path of one function.
type PState struct {
	env   map[ssa.Value]Tri        // canonical value -> fact
	alias map[ssa.Value]ssa.Value  // value -> canonical value it equals on this path
	cell  map[*ssa.Alloc]ssa.Value // local cell -> canonical value last stored
	tuple map[ssa.Value][]Tri      // multi-result call -> facts about its components
	fcell map[fieldKey]ssa.Value   // (local literal, field) -> canonical value last stored
	Flags uint64                   // rule-defined event bits (never pruned)
	Trace string                   // rule-defined event trace (part of the state identity)
	// defers: function literals registered with `defer` on this path (only when the
	// explorer inlines deferred closures), in registration order
	defers []*ssa.Defer
}

type fieldKey struct {
	base  *ssa.Alloc
	field int
}

func newPState() *PState {
	return &PState{env: map[ssa.Value]Tri{}, alias: map[ssa.Value]ssa.Value{}, cell: map[*ssa.Alloc]ssa.Value{}, tuple: map[ssa.Value][]Tri{}, fcell: map[fieldKey]ssa.Value{}}
}

func (s *PState) clone() *PState {
	n := &PState{env: make(map[ssa.Value]Tri, len(s.env)), alias: make(map[ssa.Value]ssa.Value, len(s.alias)),
		cell: make(map[*ssa.Alloc]ssa.Value, len(s.cell)), tuple: make(map[ssa.Value][]Tri, len(s.tuple)), fcell: make(map[fieldKey]ssa.Value, len(s.fcell)), Flags: s.Flags, Trace: s.Trace}
	if len(s.defers) > 0 {
		n.defers = append([]*ssa.Defer(nil), s.defers...)
	}
	for k, v := range s.fcell {
		n.fcell[k] = v
	}
	for k, v := range s.env {
		n.env[k] = v
	}
	for k, v := range s.alias {
		n.alias[k] = v
	}
	for k, v := range s.cell {
		n.cell[k] = v
	}
	for k, v := range s.tuple {
		n.tuple[k] = v
	}
	return n
}

// Canon returns the canonical representative of v on this path.
func (s *PState) Canon(v ssa.Value) ssa.Value {
	for i := 0; i < 32; i++ {
		switch x := v.(type) {
		case *ssa.ChangeType:
			v = x.X
			continue
		case *ssa.ChangeInterface:
			v = x.X
			continue
		}
		if a, ok := s.alias[v]; ok && a != v {
			v = a
			continue
		}
		break
	}
	return v
}

// Eval returns what is known about v on this path.
func (s *PState) Eval(v ssa.Value) Tri {
	v = s.Canon(v)
	switch x := v.(type) {
	case *ssa.Const:
		if x.Value == nil {
			if isBasicNonNilable(x.Type()) {
				return TriUnknown
			}
			return TriNo
		}
		if b, ok := constBool(x); ok {
			if b {
				return TriYes
			}
			return TriNo
		}
		return TriUnknown
	case *ssa.Alloc, *ssa.MakeClosure, *ssa.MakeMap, *ssa.MakeChan, *ssa.MakeSlice, *ssa.Function,
		*ssa.FieldAddr, *ssa.IndexAddr, *ssa.MakeInterface, *ssa.Global:
		return TriYes
	case *ssa.UnOp:
		if x.Op == token.NOT {
			return -s.Eval(x.X)
		}
		if x.Op == token.MUL {
			// a package-level sentinel error (io.EOF, segment.ErrClosed, ...) is never nil
			if g, ok := x.X.(*ssa.Global); ok && isErrorType(x.Type()) && g.Pkg != nil {
				return TriYes
			}
		}
	case *ssa.BinOp:
		if t, _, _ := s.evalCompare(x); t != TriUnknown {
			return t
		}
	case *ssa.Call:
		if isNonNilProducer(x.Common()) {
			return TriYes
		}
		if t, ok := s.env[v]; ok && t != TriUnknown {
			return t
		}
		if alwaysNonNil(x.Common().StaticCallee()) {
			return TriYes
		}
	}
	return s.env[v]
}

// Forget drops what is known about v (used for facts that must not survive a loop round).
func (s *PState) Forget(v ssa.Value) {
	delete(s.env, v)
	delete(s.env, s.Canon(v))
}

// Set records a fact about v (through its canonical representative).
func (s *PState) Set(v ssa.Value, t Tri) {
	c := s.Canon(v)
	if t == TriUnknown {
		delete(s.env, c)
	} else {
		s.env[c] = t
	}
}

// evalCompare handles x == nil, x != nil, b == true ... Returns the fact if known,
// otherwise the value to learn about and the polarity (fact for that value when the
// comparison is true).
func (s *PState) evalCompare(b *ssa.BinOp) (Tri, ssa.Value, Tri) {
	if b.Op != token.EQL && b.Op != token.NEQ {
		return TriUnknown, nil, 0
	}
	var other ssa.Value
	var constFact Tri
	if isNilConst(b.Y) {
		other, constFact = b.X, TriNo
	} else if isNilConst(b.X) {
		other, constFact = b.Y, TriNo
	} else if bv, ok := constBool(b.Y); ok {
		other = b.X
		constFact = TriNo
		if bv {
			constFact = TriYes
		}
	} else if bv, ok := constBool(b.X); ok {
		other = b.Y
		constFact = TriNo
		if bv {
			constFact = TriYes
		}
	} else {
		return TriUnknown, nil, 0
	}
	// comparison is "other == const" (EQL) or "other != const" (NEQ)
	t := s.Eval(other)
	pol := constFact // fact for other when (other == const) holds
	if b.Op == token.NEQ {
		pol = -constFact
	}
	if t != TriUnknown {
		if t == pol {
			return TriYes, nil, 0
		}
		return TriNo, nil, 0
	}
	return TriUnknown, s.Canon(other), pol
}

func isNonNilProducer(cc *ssa.CallCommon) bool {
	f := staticCallee(cc)
	if f == nil || f.Pkg == nil {
		return false
	}
	switch f.Pkg.Pkg.Path() + "." + f.Name() {
	case "fmt.Errorf", "errors.New":
		return true
	}
	return false
}

// Outcome is one abstract outcome of a call: facts about its result components and
// event flags raised inside the callee.
type Outcome struct {
	Results []Tri
	Flags   uint64
	Trace   string // appended to the caller's trace
	Replace bool // Flags replace the caller's flags instead of being OR-ed in
}

// Explorer walks all paths of Fn path-sensitively for nil/bool tests (no solver: a
// finite abstract interpretation with the three-valued domain above, joined by state
// identity).
type Explorer struct {
	Fn *ssa.Function
	// OnInstr is called for each instruction on each abstract path before its effect.
	// Returning false cuts the path at this instruction.
	OnInstr func(in ssa.Instruction, st *PState) bool
	// Outcomes optionally gives the abstract outcomes of a call (forking the path).
	Outcomes func(call ssa.CallInstruction, st *PState) []Outcome
	// LookupOutcomes optionally forks on the outcome of a comma-ok map lookup
	// (Results = facts for (value, ok)).
	LookupOutcomes func(lk *ssa.Lookup, st *PState) []Outcome
	// OnReturn is called at each Return with the state.
	OnReturn func(ret *ssa.Return, st *PState)
	// OnEdge is called when a CFG edge is taken.
	OnEdge func(from, to *ssa.BasicBlock, st *PState)
	// OnPhi is called for each phi assignment on an edge with the canonical incoming value
	// (src == phi means: the value flows around unchanged).
	OnPhi func(phi *ssa.Phi, src ssa.Value, from *ssa.BasicBlock, st *PState)
	// EdgeFilter, when set, may cut the path on an edge by returning false.
	EdgeFilter func(from, to *ssa.BasicBlock, st *PState) bool

	// Keep lists values whose facts must survive liveness pruning (they are queried by the rule).
	Keep map[ssa.Value]bool

	// InlineDefers: a function literal registered with `defer` is explored, at the point where
	// the deferred calls run, in the context of the path (flags, trace, and what is known about
	// the variables it captures, e.g. the named error result). Its events are seen by the same
	// hooks. NewChild builds the explorer for the literal (default: same hooks as this one).
	InlineDefers bool
	NewChild     func(fn *ssa.Function) *Explorer

	MaxStates int
	States    int
	Exceeded  bool

	ids      map[ssa.Value]int
	reach    [][]bool
	useBlk   map[ssa.Value][]int
	liveIn   map[ssa.Value]map[int]bool
	noTrack  map[*ssa.Alloc]bool
	seen     map[string]bool
	work     []pwork
	prepared bool
	// seedLoads: facts about loads of captured variables, re-applied when the load executes
	seedLoads map[ssa.Value]Tri
}

type pwork struct {
	blk *ssa.BasicBlock
	idx int
	st  *PState
}

func (e *Explorer) prepare() {
	if e.prepared {
		return
	}
	e.prepared = true
	e.ids = map[ssa.Value]int{}
	e.reach = blockReach(e.Fn)
	e.useBlk = map[ssa.Value][]int{}
	e.liveIn = map[ssa.Value]map[int]bool{}
	e.noTrack = map[*ssa.Alloc]bool{}
	e.seen = map[string]bool{}
	if e.MaxStates == 0 {
		e.MaxStates = 200000
	}
	// cells written by nested closures are never tracked
	for _, b := range e.Fn.Blocks {
		for _, in := range b.Instrs {
			mc, ok := in.(*ssa.MakeClosure)
			if !ok {
				continue
			}
			fn := mc.Fn.(*ssa.Function)
			for i, bind := range mc.Bindings {
				al, ok := bind.(*ssa.Alloc)
				if !ok {
					continue
				}
				if closureWrites(fn, fn.FreeVars[i], 0) {
					e.noTrack[al] = true
				}
			}
		}
	}
}

func closureWrites(fn *ssa.Function, fv *ssa.FreeVar, depth int) bool {
	if depth > 4 || fv.Referrers() == nil {
		return false
	}
	for _, r := range *fv.Referrers() {
		switch x := r.(type) {
		case *ssa.Store:
			if x.Addr == fv {
				return true
			}
		case *ssa.MakeClosure:
			inner := x.Fn.(*ssa.Function)
			for i, b := range x.Bindings {
				if b == fv && closureWrites(inner, inner.FreeVars[i], depth+1) {
					return true
				}
			}
		}
	}
	return false
}

func (e *Explorer) id(v ssa.Value) int {
	if i, ok := e.ids[v]; ok {
		return i
	}
	i := len(e.ids) + 1
	e.ids[v] = i
	return i
}

func (e *Explorer) key(b *ssa.BasicBlock, idx int, st *PState) string {
	var parts []string
	for k, v := range st.env {
		parts = append(parts, "e"+strconv.Itoa(e.id(k))+":"+strconv.Itoa(int(v)))
	}
	for k, v := range st.alias {
		parts = append(parts, "a"+strconv.Itoa(e.id(k))+":"+strconv.Itoa(e.id(v)))
	}
	for k, v := range st.cell {
		parts = append(parts, "c"+strconv.Itoa(e.id(k))+":"+strconv.Itoa(e.id(v)))
	}
	for k, v := range st.fcell {
		parts = append(parts, "f"+strconv.Itoa(e.id(k.base))+"."+strconv.Itoa(k.field)+":"+strconv.Itoa(e.id(v)))
	}
	for k, v := range st.tuple {
		s := "t" + strconv.Itoa(e.id(k)) + ":"
		for _, t := range v {
			s += strconv.Itoa(int(t)) + ","
		}
		parts = append(parts, s)
	}
	sort.Strings(parts)
	dk := ""
	for _, d := range st.defers {
		dk += "d" + strconv.Itoa(int(d.Pos())) + ","
	}
	return strconv.Itoa(b.Index) + "." + strconv.Itoa(idx) + "|" + strconv.FormatUint(st.Flags, 16) + "|" + st.Trace + "|" + dk + "|" + strings.Join(parts, ";")
}

// liveAt: is value v live on entry to block b? For instruction-defined values this is SSA
// liveness (a use is reachable from b without passing v's definition); for parameters,
// free variables and the like it is plain reachability of a use.
func (e *Explorer) liveAt(v ssa.Value, b *ssa.BasicBlock) bool {
	if e.Keep[v] {
		return true
	}
	li, ok := e.liveIn[v]
	if !ok {
		li = map[int]bool{}
		refs := v.Referrers()
		if refs == nil {
			li[-1] = true // no referrer information (Const, Function, Global): keep
			e.liveIn[v] = li
			return true
		}
		var def *ssa.BasicBlock
		if in, isInstr := v.(ssa.Instruction); isInstr {
			def = in.Block()
		}
		var stack []*ssa.BasicBlock
		markIn := func(blk *ssa.BasicBlock) {
			// v is live on entry to blk (unless blk defines it)
			if blk == def {
				if _, isPhi := v.(*ssa.Phi); isPhi {
					li[blk.Index] = true // phis are assigned on the incoming edge: live at block entry
				}
				return
			}
			if !li[blk.Index] {
				li[blk.Index] = true
				stack = append(stack, blk)
			}
		}
		for _, r := range *refs {
			if r.Block() == nil {
				continue
			}
			if p, isPhi := r.(*ssa.Phi); isPhi {
				for i, ed := range p.Edges {
					if ed == v {
						markIn(p.Block().Preds[i]) // used at the end of the predecessor
					}
				}
				continue
			}
			markIn(r.Block())
		}
		for len(stack) > 0 {
			blk := stack[len(stack)-1]
			stack = stack[:len(stack)-1]
			for _, p := range blk.Preds {
				markIn(p)
			}
		}
		if def == nil {
			// parameters etc.: live wherever a use is reachable; computed above by the same walk
		}
		e.liveIn[v] = li
	}
	return li[-1] || li[b.Index]
}

func (e *Explorer) prune(st *PState, b *ssa.BasicBlock) {
	for k := range st.alias {
		if !e.liveAt(k, b) {
			delete(st.alias, k)
		}
	}
	targets := map[ssa.Value]bool{}
	for _, v := range st.alias {
		targets[v] = true
	}
	for _, v := range st.cell {
		targets[v] = true
	}
	for _, v := range st.fcell {
		targets[v] = true
	}
	for k := range st.env {
		if !targets[k] && !e.liveAt(k, b) {
			delete(st.env, k)
		}
	}
	for k := range st.tuple {
		if !e.liveAt(k, b) {
			delete(st.tuple, k)
		}
	}
	for k := range st.cell {
		if !e.liveAt(k, b) {
			delete(st.cell, k)
		}
	}
	for k := range st.fcell {
		if !e.liveAt(k.base, b) {
			delete(st.fcell, k)
		}
	}
}

func (e *Explorer) push(b *ssa.BasicBlock, idx int, st *PState) {
	if idx == 0 {
		e.prune(st, b)
	}
	k := e.key(b, idx, st)
	if e.seen[k] {
		return
	}
	e.seen[k] = true
	e.States++
	if e.States > e.MaxStates {
		e.Exceeded = true
		return
	}
	e.work = append(e.work, pwork{b, idx, st})
}

// Run explores from the function entry.
func (e *Explorer) Run() {
	e.prepare()
	if len(e.Fn.Blocks) == 0 {
		return
	}
	e.RunFrom(e.Fn.Blocks[0], 0, newPState())
}

// RunFrom explores from instruction idx of block b in state st.
func (e *Explorer) RunFrom(b *ssa.BasicBlock, idx int, st *PState) {
	e.prepare()
	e.push(b, idx, st)
	for len(e.work) > 0 && !e.Exceeded {
		w := e.work[len(e.work)-1]
		e.work = e.work[:len(e.work)-1]
		e.execBlock(w.blk, w.idx, w.st)
	}
}

// RunAfter explores starting right after instruction in.
func (e *Explorer) RunAfter(in ssa.Instruction, st *PState) {
	e.RunFrom(in.Block(), instrIndex(in)+1, st)
}

func (e *Explorer) redefine(st *PState, v ssa.Value) {
	delete(st.env, v)
	delete(st.tuple, v)
	delete(st.alias, v)
	for k, t := range st.alias {
		if t == v {
			delete(st.alias, k)
		}
	}
	for k, t := range st.cell {
		if t == v {
			delete(st.cell, k)
		}
	}
	for k, t := range st.fcell {
		if t == v || ssa.Value(k.base) == v {
			delete(st.fcell, k)
		}
	}
}

func (e *Explorer) execBlock(b *ssa.BasicBlock, start int, st *PState) {
	for i := start; i < len(b.Instrs); i++ {
		in := b.Instrs[i]
		if _, isPhi := in.(*ssa.Phi); isPhi {
			continue // handled on the edge
		}
		if e.OnInstr != nil && !e.OnInstr(in, st) {
			return
		}
		if v, ok := in.(ssa.Value); ok {
			e.redefine(st, v)
			if t, ok := e.seedLoads[v]; ok {
				st.env[v] = t
			}
		}
		switch x := in.(type) {
		case *ssa.Store:
			if al, ok := x.Addr.(*ssa.Alloc); ok && !e.noTrack[al] {
				st.cell[al] = st.Canon(x.Val)
			}
			if fa, ok := x.Addr.(*ssa.FieldAddr); ok {
				if al, ok := st.Canon(fa.X).(*ssa.Alloc); ok {
					st.fcell[fieldKey{al, fa.Field}] = st.Canon(x.Val)
				}
			}
		case *ssa.UnOp:
			if x.Op == token.MUL {
				if al, ok := x.X.(*ssa.Alloc); ok && !e.noTrack[al] {
					if c, ok := st.cell[al]; ok {
						st.alias[x] = c
					}
				}
				if fa, ok := x.X.(*ssa.FieldAddr); ok {
					if al, ok := st.Canon(fa.X).(*ssa.Alloc); ok {
						if c, ok := st.fcell[fieldKey{al, fa.Field}]; ok {
							st.alias[x] = c
						}
					}
				}
			}
		case *ssa.Extract:
			if ts, ok := st.tuple[x.Tuple]; ok && x.Index < len(ts) && ts[x.Index] != TriUnknown {
				st.env[x] = ts[x.Index]
			}
		case *ssa.Lookup:
			// v, ok := m[k]: a rule may fork on the outcome of the lookup
			if x.CommaOk && e.LookupOutcomes != nil {
				if outs := e.LookupOutcomes(x, st); len(outs) > 0 {
					for _, o := range outs {
						ns := st.clone()
						ns.Flags |= o.Flags
						ns.tuple[x] = o.Results
						e.push(b, i+1, ns)
					}
					return
				}
			}
		case *ssa.Call:
			for _, arg := range x.Common().Args {
				if al, ok := st.Canon(arg).(*ssa.Alloc); ok {
					for k := range st.fcell {
						if k.base == al {
							delete(st.fcell, k)
						}
					}
				}
			}
			if e.Outcomes != nil {
				outs := e.Outcomes(x, st)
				if len(outs) > 0 {
					for _, o := range outs {
						ns := st.clone()
						if o.Replace {
							ns.Flags = o.Flags
						} else {
							ns.Flags |= o.Flags
						}
						ns.Trace += o.Trace
						if x.Common().Signature().Results().Len() == 1 {
							if len(o.Results) > 0 && o.Results[0] != TriUnknown {
								ns.env[x] = o.Results[0]
							}
						} else if len(o.Results) > 0 {
							ns.tuple[x] = o.Results
						}
						e.push(b, i+1, ns)
					}
					return
				}
			}
		case *ssa.Defer:
			if e.InlineDefers {
				if _, isLit := deferredLiteral(x); isLit {
					st.defers = append(st.defers, x)
				}
			}
		case *ssa.RunDefers:
			if e.InlineDefers && len(st.defers) > 0 {
				states := []*PState{st}
				for k := len(st.defers) - 1; k >= 0 && !e.Exceeded; k-- {
					var next []*PState
					for _, cur := range states {
						next = append(next, e.runDeferred(st.defers[k], cur)...)
					}
					states = next
				}
				for _, ns := range states {
					ns.defers = nil
					e.push(b, i+1, ns)
				}
				return
			}
		case *ssa.If:
			e.branch(b, x, st)
			return
		case *ssa.Jump:
			e.edge(b, b.Succs[0], st)
			return
		case *ssa.Return:
			if e.OnReturn != nil {
				e.OnReturn(x, st)
			}
			return
		case *ssa.Panic:
			return
		}
	}
}

func (e *Explorer) branch(b *ssa.BasicBlock, x *ssa.If, st *PState) {
	t, learn, pol := e.evalCond(x.Cond, st)
	switch t {
	case TriYes:
		e.edge(b, b.Succs[0], st)
	case TriNo:
		e.edge(b, b.Succs[1], st)
	default:
		st2 := st.clone()
		if learn != nil {
			st.env[learn] = pol
			st2.env[learn] = -pol
		}
		e.edge(b, b.Succs[0], st)
		e.edge(b, b.Succs[1], st2)
	}
}

// evalCond: fact if known, else (value to learn, its fact when cond is true).
func (e *Explorer) evalCond(c ssa.Value, st *PState) (Tri, ssa.Value, Tri) {
	c = st.Canon(c)
	switch x := c.(type) {
	case *ssa.BinOp:
		t, l, p := st.evalCompare(x)
		if t != TriUnknown || l != nil {
			return t, l, p
		}
		if t := st.env[c]; t != TriUnknown {
			return t, nil, 0
		}
		return TriUnknown, c, TriYes
	case *ssa.UnOp:
		if x.Op == token.NOT {
			t, l, p := e.evalCond(x.X, st)
			return -t, l, -p
		}
	}
	t := st.Eval(c)
	if t != TriUnknown {
		return t, nil, 0
	}
	if _, isConst := c.(*ssa.Const); isConst {
		return TriUnknown, nil, 0
	}
	return TriUnknown, c, TriYes
}

func (e *Explorer) edge(from, to *ssa.BasicBlock, st *PState) {
	pi := -1
	for i, p := range to.Preds {
		if p == from {
			pi = i
			break
		}
	}
	ns := st.clone()
	// parallel phi assignment
	type asg struct {
		phi *ssa.Phi
		src ssa.Value
	}
	var as []asg
	for _, in := range to.Instrs {
		phi, ok := in.(*ssa.Phi)
		if !ok {
			break
		}
		if pi >= 0 {
			as = append(as, asg{phi, st.Canon(phi.Edges[pi])})
		}
	}
	if e.OnPhi != nil {
		for _, a := range as {
			e.OnPhi(a.phi, a.src, from, ns)
		}
	}
	for _, a := range as {
		e.redefine(ns, a.phi)
	}
	for _, a := range as {
		if a.src != a.phi {
			ns.alias[a.phi] = a.src
		}
	}
	if e.OnEdge != nil {
		e.OnEdge(from, to, ns)
	}
	if e.EdgeFilter != nil && !e.EdgeFilter(from, to, ns) {
		return
	}
	e.push(to, 0, ns)
}

// deferredLiteral: the function literal a defer statement registers, with its bindings.
func deferredLiteral(d *ssa.Defer) (*ssa.MakeClosure, bool) {
	if d.Call.IsInvoke() {
		return nil, false
	}
	switch v := d.Call.Value.(type) {
	case *ssa.MakeClosure:
		if f, ok := v.Fn.(*ssa.Function); ok && f.Blocks != nil {
			return v, true
		}
	case *ssa.Function:
		if v.Parent() != nil && v.Blocks != nil {
			return nil, true // literal without captured variables
		}
	}
	return nil, false
}

// runDeferred explores the deferred function literal in the context of st and returns the
// states in which the enclosing function continues (flags and trace as left by the literal).
func (e *Explorer) runDeferred(d *ssa.Defer, st *PState) []*PState {
	mc, _ := deferredLiteral(d)
	var fn *ssa.Function
	if mc != nil {
		fn = mc.Fn.(*ssa.Function)
	} else {
		fn = d.Call.Value.(*ssa.Function)
	}
	var child *Explorer
	if e.NewChild != nil {
		child = e.NewChild(fn)
	} else {
		child = &Explorer{Fn: fn, OnInstr: e.OnInstr, Outcomes: e.Outcomes, LookupOutcomes: e.LookupOutcomes, OnEdge: e.OnEdge, EdgeFilter: e.EdgeFilter}
	}
	child.InlineDefers = true
	if child.Keep == nil {
		child.Keep = map[ssa.Value]bool{}
	}
	child.MaxStates = e.MaxStates
	init := newPState()
	init.Flags, init.Trace = st.Flags, st.Trace
	if mc != nil {
		for i, fv := range fn.FreeVars {
			if i >= len(mc.Bindings) || fv.Referrers() == nil {
				continue
			}
			t := TriUnknown
			isCell := false
			if al, ok := mc.Bindings[i].(*ssa.Alloc); ok {
				isCell = true
				if c, ok := st.cell[al]; ok && !e.noTrack[al] {
					t = st.Eval(c)
				}
			} else {
				t = st.Eval(mc.Bindings[i])
			}
			if t == TriUnknown {
				continue
			}
			if !isCell {
				init.env[fv] = t
				child.Keep[fv] = true
				continue
			}
			for _, r := range *fv.Referrers() {
				if u, ok := r.(*ssa.UnOp); ok && u.Op == token.MUL && u.X == ssa.Value(fv) {
					init.env[u] = t
					child.Keep[u] = true
				}
			}
		}
	}
	type res struct {
		flags uint64
		trace string
	}
	seen := map[res]bool{}
	var outs []*PState
	inner := child.OnReturn
	child.OnReturn = func(r *ssa.Return, cst *PState) {
		if inner != nil {
			inner(r, cst)
		}
		k := res{cst.Flags, cst.Trace}
		if seen[k] {
			return
		}
		seen[k] = true
		ns := st.clone()
		ns.Flags, ns.Trace = cst.Flags, cst.Trace
		outs = append(outs, ns)
	}
	child.prepare()
	// facts seeded for loads must not be dropped when the load instruction (re)defines its value
	seeded := init.clone()
	base := child.OnInstr
	child.OnInstr = func(in ssa.Instruction, cst *PState) bool {
		if base != nil && !base(in, cst) {
			return false
		}
		return true
	}
	child.seedLoads = seeded.env
	if len(fn.Blocks) > 0 {
		child.RunFrom(fn.Blocks[0], 0, init)
	}
	if child.Exceeded {
		e.Exceeded = true
	}
	e.States += child.States
	if len(outs) == 0 {
		// the literal never returns normally (panics): the function does not continue
		return nil
	}
	return outs
}

// ---- function summaries -------------------------------------------------------------

// RetOutcome is one abstract way a function returns.
type RetOutcome struct {
	Results []Tri
	Flags   uint64
	Trace   string
}

func (r RetOutcome) key() string {
	s := strconv.FormatUint(r.Flags, 16) + ":" + r.Trace + ":"
	for _, t := range r.Results {
		s += strconv.Itoa(int(t)) + ","
	}
	return s
}

// Summarizer computes, per function, the set of abstract return outcomes under a
// rule-specific event model (flags raised by sites, propagated through callees).
type Summarizer struct {
	// SiteOutcomes gives outcomes for a "primitive" site of the rule (e.g. a durable
	// persist call); nil when the call is not a primitive site.
	SiteOutcomes func(call ssa.CallInstruction, st *PState) []Outcome
	// OnInstr lets the rule observe every instruction inside summarised functions.
	OnInstr func(fn *ssa.Function, in ssa.Instruction, st *PState) bool
	// Follow decides whether a static callee is summarised (default: bluge functions with bodies).
	Follow func(fn *ssa.Function) bool
	// Combine merges the caller's flags with the flags of one callee outcome (default: OR).
	Combine func(caller, callee uint64) uint64
	// LookupOutcomes is installed on every explorer created by the summarizer.
	LookupOutcomes func(lk *ssa.Lookup, st *PState) []Outcome
	// TraceMap, when set, rewrites a callee's trace in the context of the call (e.g. to
	// classify events that depend on what the caller passed in).
	TraceMap func(call ssa.CallInstruction, st *PState, calleeTrace string) string
	// EdgeFilter is installed on every explorer created by the summarizer.
	EdgeFilter func(from, to *ssa.BasicBlock, st *PState) bool
	// OnEdge is installed on every explorer created by the summarizer.
	OnEdge func(from, to *ssa.BasicBlock, st *PState)
	// ClearFlagsOnReturn drops the (function-local) flags from return outcomes.
	ClearFlagsOnReturn bool
	// InlineDefers: explorers created by the summarizer run deferred function literals in context.
	InlineDefers bool

	memo     map[*ssa.Function][]RetOutcome
	inFlight map[*ssa.Function]bool
	Exceeded bool
}

func (s *Summarizer) Summary(fn *ssa.Function) []RetOutcome {
	if s.memo == nil {
		s.memo = map[*ssa.Function][]RetOutcome{}
		s.inFlight = map[*ssa.Function]bool{}
	}
	if r, ok := s.memo[fn]; ok {
		return r
	}
	if s.inFlight[fn] || fn.Blocks == nil {
		return nil // recursion / no body: unknown
	}
	s.inFlight[fn] = true
	defer delete(s.inFlight, fn)
	outs := map[string]RetOutcome{}
	ex := s.Explorer(fn)
	ex.OnReturn = func(ret *ssa.Return, st *PState) {
		ro := RetOutcome{Flags: st.Flags, Trace: st.Trace}
		if s.ClearFlagsOnReturn {
			ro.Flags = 0
		}
		for _, r := range ret.Results {
			ro.Results = append(ro.Results, st.Eval(r))
		}
		outs[ro.key()] = ro
	}
	ex.Run()
	if ex.Exceeded {
		s.Exceeded = true
	}
	var rv []RetOutcome
	var keys []string
	for k := range outs {
		keys = append(keys, k)
	}
	sort.Strings(keys)
	for _, k := range keys {
		rv = append(rv, outs[k])
	}
	s.memo[fn] = rv
	return rv
}

// Explorer returns an explorer for fn whose calls fork according to site outcomes and
// callee summaries.
func (s *Summarizer) Explorer(fn *ssa.Function) *Explorer {
	ex := &Explorer{Fn: fn}
	ex.Outcomes = func(call ssa.CallInstruction, st *PState) []Outcome {
		if s.SiteOutcomes != nil {
			if o := s.SiteOutcomes(call, st); o != nil {
				return o
			}
		}
		callee := staticCallee(call.Common())
		// sync.Once.Do(f) runs f (at most once): summarise the function literal handed to it
		if callee != nil && isFuncNamed(callee, "sync", "Once.Do") && len(call.Common().Args) == 2 {
			if mc, ok := call.Common().Args[1].(*ssa.MakeClosure); ok {
				inner := mc.Fn.(*ssa.Function)
				var outs []Outcome
				for _, r := range s.Summary(inner) {
					o := Outcome{Flags: r.Flags, Trace: r.Trace}
					if s.Combine != nil {
						o.Flags = s.Combine(st.Flags, r.Flags)
						o.Replace = true
					}
					outs = append(outs, o)
				}
				return outs
			}
		}
		if callee == nil || callee.Blocks == nil {
			return nil
		}
		if s.Follow != nil {
			if !s.Follow(callee) {
				return nil
			}
		} else if callee.Pkg == nil && callee.Parent() == nil || !strings.HasPrefix(funcPkgPath(callee), modPath) {
			return nil
		}
		sum := s.Summary(callee)
		if len(sum) == 0 {
			return nil
		}
		var outs []Outcome
		for _, r := range sum {
			o := Outcome{Results: r.Results, Flags: r.Flags, Trace: r.Trace}
			if s.TraceMap != nil {
				o.Trace = s.TraceMap(call, st, r.Trace)
			}
			if s.Combine != nil {
				o.Flags = s.Combine(st.Flags, r.Flags)
				o.Replace = true
			}
			outs = append(outs, o)
		}
		return outs
	}
	if s.OnInstr != nil {
		ex.OnInstr = func(in ssa.Instruction, st *PState) bool { return s.OnInstr(fn, in, st) }
	}
	ex.EdgeFilter = s.EdgeFilter
	ex.OnEdge = s.OnEdge
	ex.LookupOutcomes = s.LookupOutcomes
	if s.InlineDefers {
		ex.InlineDefers = true
		ex.NewChild = func(lit *ssa.Function) *Explorer { return s.Explorer(lit) }
	}
	return ex
}

// resultTypesErrIdx is a small helper: index of the error result of fn, or -1.
func fnErrIdx(fn *ssa.Function) int { return errorResultIndex(fn.Signature) }

var _ = types.Identical
