package main

import (
	"fmt"
	"go/token"
	"go/types"
	"strings"

	"golang.org/x/tools/go/ssa"
)

func init() {
	registerProperty(&PropertyInfo{
		ID:    "C08",
		Title: "Search answers depend only on the logical documents, not the layout",
		Rules: []string{"C08.R1", "C02.R2", "C08.R3", "C08.R4", "C08.R5", "C08.R6", "C08.R7", "C08.R8", "C09.R5", "C04.R5", "C07.R2", "C06.R5", "C04.R2"},
		Decides: "structural conditions of layout independence (narrow claim): builds are total, including the empty corpus - every constant-index access x[k] in package index is dominated by length facts (from ==, !=, <, <=, >, >= tests of len(x) and loop conditions) implying len(x) > k, with no possibly-shrinking operation in between; a backup copies every segment before the snapshot that names it (C02.R2 applied to Backup, no skip allowed); every registered segment plugin takes its five members from one package, the snapshot writer records each segment's own type and version and the loader selects the plugin by the RECORDED type and version; collection statistics are summed over every segment of the snapshot without a skip edge; multi-segment iterators globalise doc numbers (C07.R2) over offsets that are cumulative full sizes (C06.R5) and never mutate shared bitmaps (C04.R2). a fixed-arity combination of list elements is used only when the list has exactly that many; the plugin that opens a persisted segment is the registry entry under its recorded version; doc values are read through the reader of the hit's own index.",
		NotCovered: "equality of answers across build recipes; scores on merged segments (the segment library rewrites norms when it merges); MultiSearch merging.",
	})
	registerRule(&RuleInfo{ID: "C08.R1", Title: "constant-index accesses in package index are guarded by length facts", Floor: 15, Run: ruleC08R1,
		Covers: "every x[k] with constant k on a slice in package index"})
	registerRule(&RuleInfo{ID: "C08.R5", Title: "per-segment iterator construction carries no state from one segment to the next", Floor: 2, Run: ruleC08R5,
		Covers: "loop-carried values of every loop over snapshot.segment that fills a per-segment iterator slot"})
	registerRule(&RuleInfo{ID: "C08.R6", Title: "a changed heap root is re-sifted before the heap is looked at again", Floor: 1, Run: ruleC08R6,
		Covers: "methods of heap.Interface implementations in package index that modify an element of the backing slice"})
	registerRule(&RuleInfo{ID: "C08.R3", Title: "a segment is loaded with the plugin that wrote it", Floor: 4, Run: ruleC08R3,
		Covers: "plugin literals of the default configuration; recorded type/version in the snapshot writer; plugin selection in the loader"})
	registerRule(&RuleInfo{ID: "C08.R4", Title: "collection statistics are summed over every segment", Floor: 1, Run: ruleC08R4,
		Covers: "loop shape of Snapshot.CollectionStats"})
}

// lenGuard: information an If gives about len(path) on one of its edges.
type lenFact struct {
	lower    int64 // len >= lower
	excluded []int64
}

func lenCompare(cond ssa.Value) (path string, op token.Token, c int64, ok bool) {
	b, isBin := cond.(*ssa.BinOp)
	if !isBin {
		return
	}
	lenOf := func(v ssa.Value) string {
		call, isCall := v.(*ssa.Call)
		if !isCall || builtinName(call.Common()) != "len" {
			return ""
		}
		return accessPath(call.Common().Args[0])
	}
	if p := lenOf(b.X); p != "" {
		if k, okc := constInt(b.Y); okc {
			return p, b.Op, k, true
		}
	}
	if p := lenOf(b.Y); p != "" {
		if k, okc := constInt(b.X); okc {
			// c OP len  ==  len OP' c
			flip := map[token.Token]token.Token{token.LSS: token.GTR, token.GTR: token.LSS, token.LEQ: token.GEQ, token.GEQ: token.LEQ, token.EQL: token.EQL, token.NEQ: token.NEQ}
			return p, flip[b.Op], k, true
		}
	}
	return
}

// factOnEdge: what `len OP c` tells on the true (k=0) or false (k=1) edge.
func factOnEdge(op token.Token, c int64, edge int) (lower int64, excl []int64) {
	if edge == 1 { // negate
		neg := map[token.Token]token.Token{token.LSS: token.GEQ, token.GEQ: token.LSS, token.GTR: token.LEQ, token.LEQ: token.GTR, token.EQL: token.NEQ, token.NEQ: token.EQL}
		op = neg[op]
	}
	switch op {
	case token.GTR:
		return c + 1, nil
	case token.GEQ:
		return c, nil
	case token.EQL:
		return c, nil
	case token.NEQ:
		return 0, []int64{c}
	}
	return 0, nil
}

func ruleC08R1(c *Ctx) { constIndexGuards(c, c.FuncsIn(pkgIndex)) }

// constIndexGuards: every constant index into a slice is covered by dominating length facts.
func constIndexGuards(c *Ctx, funcs []*ssa.Function) {
	noShrink := func(f *ssa.Function) bool {
		if f == nil || f.Pkg == nil {
			return false
		}
		switch f.Pkg.Pkg.Path() + "." + f.Name() {
		case "container/heap.Fix", "container/heap.Init", "sort.Sort", "sort.Stable", "sync/atomic.AddUint64", "sync/atomic.LoadUint64", "sync/atomic.StoreUint64":
			return true
		}
		return false
	}
	// lowerAt: the lower bound on len(path) that the dominating length tests of fn establish at
	// instruction in (no possibly-shrinking operation between the test's edge and in).
	var lowerAt func(fn *ssa.Function, in ssa.Instruction, path string, base ssa.Value) int64
	lowerAt = func(fn *ssa.Function, in ssa.Instruction, path string, base ssa.Value) int64 {
			var lower int64
			var excl []int64
			eachInstr(fn, func(g ssa.Instruction) {
				iff, ok := g.(*ssa.If)
				if !ok {
					return
				}
				p, op, cst, okc := lenCompare(iff.Cond)
				if !okc {
					// len on the same SSA value
					if b, isBin := iff.Cond.(*ssa.BinOp); isBin {
						if call, isCall := b.X.(*ssa.Call); isCall && builtinName(call.Common()) == "len" && call.Common().Args[0] == base {
							if kk, okk := constInt(b.Y); okk {
								p, op, cst, okc = path, b.Op, kk, true
							}
						}
					}
				}
				if !okc || p != path {
					return
				}
				for edge := 0; edge < 2; edge++ {
					if !edgeDominates(iff, edge, in.Block()) {
						continue
					}
					// no possibly-shrinking operation between the guard edge and the access
					killed := false
					eachInstr(fn, func(kk ssa.Instruction) {
						if killed {
							return
						}
						isKill := false
						switch y := kk.(type) {
						case *ssa.Store:
							if accessPath(y.Addr) != "" && "*"+accessPath(y.Addr) == path {
								isKill = true
							}
						case *ssa.Call:
							if noShrink(y.Common().StaticCallee()) || builtinName(y.Common()) != "" {
								break
							}
							for _, arg := range y.Common().Args {
								ap := accessPath(stripIface(arg))
								if ap != "" && strings.HasPrefix(strings.TrimLeft(path, "*"), strings.TrimLeft(ap, "*")+".") {
									isKill = true
								}
							}
						}
						if !isKill {
							return
						}
						succ := iff.Block().Succs[edge]
						if reachAvoiding(succ, kk.Block(), iff.Block()) && (kk.Block() != in.Block() && reachAvoiding(kk.Block(), in.Block(), iff.Block()) || kk.Block() == in.Block() && instrIndex(kk) < instrIndex(in)) {
							killed = true
						}
					})
					if killed {
						continue
					}
					lo, ex := factOnEdge(op, cst, edge)
					if lo > lower {
						lower = lo
					}
					excl = append(excl, ex...)
				}
			})
			for changed := true; changed; {
				changed = false
				for _, e := range excl {
					if e == lower {
						lower++
						changed = true
					}
				}
			}
		return lower
	}
	n := 0
	for _, fn := range funcs {
		eachInstr(fn, func(in ssa.Instruction) {
			var base, idx ssa.Value
			switch x := in.(type) {
			case *ssa.IndexAddr:
				base, idx = x.X, x.Index
			case *ssa.Index:
				base, idx = x.X, x.Index
			default:
				return
			}
			k, isConst := constInt(idx)
			if !isConst {
				return
			}
			if _, isSlice := base.Type().Underlying().(*types.Slice); !isSlice {
				return
			}
			if al, ok := base.(*ssa.Slice); ok {
				if _, isAlloc := al.X.(*ssa.Alloc); isAlloc {
					return // slice of a local array (varargs)
				}
			}
			path := accessPath(base)
			n++
			key := fmt.Sprintf("constant index #%d [%d] in %s", n, k, FuncName(fn))
			pos := c.Pos(in.Pos())
			if path == "" {
				// e.g. the direct result of a call: look for a length test on the very same value
				path = "val:" + base.Name()
			}
			lower := lowerAt(fn, in, path, base)
			via := ""
			if lower <= k {
				if lo, ok := callerLower(c, fn, in, path, lowerAt, noShrink); ok && lo > lower {
					lower = lo
					via = " (established at every call site of the enclosing helper)"
				}
			}
			c.Check(lower > k, key, pos, fmt.Sprintf("dominating length facts give len >= %d%s", lower, via),
				fmt.Sprintf("no dominating test of the slice's length implies len > %d (facts give len >= %d): an empty or too short list makes this panic (index out of range)", k, lower))
		})
	}
}

func ruleC08R3(c *Ctx) {
	a := c.Idx()
	plugin := c.Named(pkgIndex, "SegmentPlugin")
	// (a) every plugin literal takes all function members and constants from one package
	n := 0
	for _, fn := range c.FuncsIn(pkgIndex) {
		eachInstr(fn, func(in ssa.Instruction) {
			al, ok := in.(*ssa.Alloc)
			if !ok || al.Comment != "complit" || namedOf(al.Type()) != plugin || al.Referrers() == nil {
				return
			}
			n++
			pkgs := map[string][]string{}
			for _, r := range *al.Referrers() {
				fa, ok := r.(*ssa.FieldAddr)
				if !ok || fa.Referrers() == nil {
					continue
				}
				for _, rr := range *fa.Referrers() {
					st, ok := rr.(*ssa.Store)
					if !ok || st.Addr != fa {
						continue
					}
					v := st.Val
					if ct, isCT := v.(*ssa.ChangeType); isCT {
						v = ct.X
					}
					switch x := v.(type) {
					case *ssa.Function:
						if x.Pkg != nil {
							pkgs[x.Pkg.Pkg.Path()] = append(pkgs[x.Pkg.Pkg.Path()], fieldVar(fa).Name())
						}
					}
				}
			}
			// constants (Type, Version) are folded: compare through the syntax of the literal
			key := fmt.Sprintf("segment plugin literal #%d in %s is homogeneous", n, FuncName(fn))
			synPkgs := pluginLiteralPackages(c, al)
			for p, fs := range synPkgs {
				pkgs[p] = append(pkgs[p], fs...)
			}
			c.Check(len(pkgs) == 1, key, c.Pos(al.Pos()), fmt.Sprintf("all members come from %v", keysOfS(pkgs)), fmt.Sprintf("the plugin mixes members of different segment packages %v: segments would be written by one format and loaded/merged by another", pkgs))
		})
	}
	// (b) the snapshot writer records each segment's own Type()/Version()
	wt := c.Method(pkgIndex, "Snapshot", "WriteTo")
	recOK := false
	eachInstr(wt, func(in ssa.Instruction) {
		call, ok := in.(*ssa.Call)
		if !ok || call.Common().StaticCallee() == nil || funcPkgPath(call.Common().StaticCallee()) != pkgIndex {
			return
		}
		var hasType, hasVer bool
		for _, arg := range call.Common().Args {
			dependsOn(arg, func(y ssa.Value) bool {
				if c2, ok := y.(*ssa.Call); ok && c2.Common().IsInvoke() {
					if c2.Common().Method.Name() == "Type" && dependsOnField(c2.Common().Value, a.SSSegment) {
						hasType = true
					}
					if c2.Common().Method.Name() == "Version" && dependsOnField(c2.Common().Value, a.SSSegment) {
						hasVer = true
					}
				}
				return false
			})
		}
		if hasType && hasVer {
			recOK = true
		}
	})
	c.Check(recOK, "snapshot writer records each segment's own type and version", c.Pos(wt.Pos()), "recordSegment(.., segment.Type(), segment.Version())", "the snapshot does not record the type/version reported by the segment itself")
	// (c) the loader selects the plugin by the recorded type and version
	fType := c.Field(pkgIndex, "segmentSnapshot", "segmentType")
	fVer := c.Field(pkgIndex, "segmentSnapshot", "segmentVersion")
	for _, fn := range snapshotLoaders(c.Program) {
		selOK := false
		var loadCall *ssa.Call
		eachInstr(fn, func(in ssa.Instruction) {
			call, ok := in.(*ssa.Call)
			if !ok || call.Common().StaticCallee() == nil {
				return
			}
			callee := call.Common().StaticCallee()
			if callee.Signature.Results().Len() == 2 && namedOf(callee.Signature.Results().At(0).Type()) == plugin {
				t, v := false, false
				for _, arg := range call.Common().Args {
					if loadsField(arg, fType) {
						t = true
					}
					if loadsField(arg, fVer) {
						v = true
					}
				}
				if t && v {
					selOK = true
					loadCall = call
				}
			}
		})
		c.Check(selOK, "loader selects the plugin by the recorded type/version in "+FuncName(fn), c.Pos(fn.Pos()), "loadSegmentPlugin(.., recorded segmentType, recorded segmentVersion)", "segments are not loaded with the plugin recorded in the snapshot (e.g. with the configured default): a directory holding segments of another format/version is misread")
		// and the segment is loaded with THAT plugin
		if loadCall != nil {
			used := false
			sel := resultValue(loadCall, 0)
			eachInstr(fn, func(in ssa.Instruction) {
				if call, ok := in.(*ssa.Call); ok && call != loadCall {
					for _, arg := range call.Common().Args {
						if arg == sel && namedOf(call.Type()) == nil {
							used = true
						}
					}
				}
			})
			c.Check(used, "the selected plugin is the one used to load the segment in "+FuncName(fn), c.Pos(loadCall.Pos()), "passed on to the segment loading function", "the selected plugin is not used for loading")
		}
	}
	// (d) decoder stores the recorded type and version into the very fields the loader reads
	dec := false
	for _, fn := range decoderFamily(c.Program) {
		if len(storesToField(fn, fType)) > 0 && len(storesToField(fn, fVer)) > 0 {
			dec = true
		}
	}
	c.Check(dec, "decoder keeps the recorded type and version", "-", "segmentType/segmentVersion are filled by the snapshot decoder", "the decoder drops the recorded segment type/version")
}

func keysOfS(m map[string][]string) []string {
	var rv []string
	for k := range m {
		rv = append(rv, k)
	}
	return rv
}

// pluginLiteralPackages inspects the syntax of a composite literal (constants are folded
// away in SSA) and returns, per imported package, the members selected from it.
func pluginLiteralPackages(c *Ctx, al *ssa.Alloc) map[string][]string {
	rv := map[string][]string{}
	fn := al.Parent()
	pk := c.All[funcPkgPath(fn)]
	if pk == nil {
		return rv
	}
	for _, f := range pk.Syntax {
		if f.Pos() <= al.Pos() && al.Pos() <= f.End() {
			inspectCompositeAt(f, al.Pos(), pk.TypesInfo, rv)
		}
	}
	return rv
}

func ruleC08R4(c *Ctx) {
	a := c.Idx()
	fn := c.Method(pkgIndex, "Snapshot", "CollectionStats")
	// the per-segment call inside a loop over i.segment, and no edge from the loop body back to the header that skips Merge/assignment
	var segCall *ssa.Call
	eachInstr(fn, func(in ssa.Instruction) {
		if call, ok := in.(*ssa.Call); ok && call.Common().IsInvoke() && call.Common().Method.Name() == "CollectionStats" && dependsOnField(call.Common().Value, a.SnapSegment) {
			segCall = call
		}
	})
	if segCall == nil {
		c.Violate("collection statistics visit every segment", c.Pos(fn.Pos()), "no per-segment CollectionStats call over the snapshot's segments")
		return
	}
	head := enclosingLoopHeader(segCall.Block())
	var problems []string
	if head == nil {
		problems = append(problems, "the per-segment statistics call is not in a loop over the segments")
	} else {
		loop := naturalLoop(head)
		// every back edge must be preceded by the merge (or first assignment) of this segment's stats
		const fMerged uint64 = 1
		ex := &Explorer{Fn: fn}
		ex.OnInstr = func(in ssa.Instruction, st *PState) bool {
			if in == ssa.Instruction(segCall) {
				st.Flags &^= fMerged
			}
			if call, ok := in.(*ssa.Call); ok && call.Common().IsInvoke() && call.Common().Method.Name() == "Merge" {
				st.Flags |= fMerged
			}
			return true
		}
		ex.OnPhi = func(phi *ssa.Phi, src ssa.Value, from *ssa.BasicBlock, st *PState) {
			if phi.Block() == head && loop[from] && src == st.Canon(resultValue(segCall, 0)) {
				st.Flags |= fMerged // rv = segStats
			}
		}
		ex.OnEdge = func(from, to *ssa.BasicBlock, st *PState) {
			if to == head && loop[from] && st.Flags&fMerged == 0 {
				problems = append(problems, "an iteration can end without adding the segment's statistics to the result")
			}
		}
		ex.Run()
	}
	c.Check(len(problems) == 0, "collection statistics visit every segment", c.Pos(segCall.Pos()), "every loop iteration merges (or starts from) the segment's statistics", uniqJoin(problems))
}

// ruleC08R5: the optimised (bitmap) iterators are built segment by segment; what is decided for
// one segment must not depend on the segments visited before.
func ruleC08R5(c *Ctx) {
	a := c.Idx()
	n := 0
	for _, fn := range c.FuncsIn(pkgIndex) {
		// per-segment slot stores: x.iterators[i] = ...
		var slotStores []*ssa.Store
		eachInstr(fn, func(in ssa.Instruction) {
			st, ok := in.(*ssa.Store)
			if !ok {
				return
			}
			ia, ok := st.Addr.(*ssa.IndexAddr)
			if !ok {
				return
			}
			if f, _ := loadedField(ia.X); f != nil && f.Name() == "iterators" {
				if _, isConst := ia.Index.(*ssa.Const); !isConst {
					slotStores = append(slotStores, st)
				}
			}
		})
		if len(slotStores) == 0 {
			continue
		}
		// the loop over snapshot.segment containing them
		var head *ssa.BasicBlock
		for _, st := range slotStores {
			h := enclosingLoopHeader(st.Block())
			for h != nil && !outermostLoop(h) {
				var up *ssa.BasicBlock
				for _, o := range fn.Blocks {
					if o != h && naturalLoop(o)[h] {
						isH := false
						for _, p := range o.Preds {
							if o.Dominates(p) {
								isH = true
							}
						}
						if isH {
							up = o
						}
					}
				}
				if up == nil {
					break
				}
				h = up
			}
			if h != nil {
				head = h
			}
		}
		if head == nil {
			continue
		}
		// is it a loop over the snapshot's segments?
		overSegments := false
		eachInstr(fn, func(in ssa.Instruction) {
			if call, ok := in.(*ssa.Call); ok && builtinName(call.Common()) == "len" && call.Block().Dominates(head) {
				if f, _ := loadedField(call.Common().Args[0]); f == a.SnapSegment {
					overSegments = true
				}
			}
		})
		if !overSegments {
			continue
		}
		// the slots must be indexed by this loop's own range index
		var idxPhi *ssa.Phi
		for _, in := range head.Instrs {
			if ph, ok := in.(*ssa.Phi); ok && strings.Contains(ph.Comment, "rangeindex") {
				idxPhi = ph
			}
		}
		byIndex := false
		if idxPhi != nil {
			for _, st := range slotStores {
				if dependsOn(st.Addr.(*ssa.IndexAddr).Index, func(y ssa.Value) bool { return y == ssa.Value(idxPhi) }) {
					byIndex = true
				}
			}
		}
		if !byIndex {
			continue
		}
		n++
		key := "no cross-segment state in " + FuncName(fn)
		var problems []string
		loop := naturalLoop(head)
		for _, in := range head.Instrs {
			ph, ok := in.(*ssa.Phi)
			if !ok {
				break
			}
			if strings.Contains(ph.Comment, "rangeindex") || ph.Referrers() == nil {
				continue
			}
			// allowed: a scratch slice that is only ever re-sliced to length 0 at the top of the round
			onlyReset := true
			used := false
			seenPhi := map[ssa.Value]bool{ph: true}
			var scan func(v ssa.Value)
			scan = func(v ssa.Value) {
				if v.Referrers() == nil {
					return
				}
				for _, r := range *v.Referrers() {
					ri, ok := r.(ssa.Instruction)
					if !ok || !loop[ri.Block()] {
						continue
					}
					if p2, isPhi := r.(*ssa.Phi); isPhi {
						if !seenPhi[p2] && p2.Block() != head {
							seenPhi[p2] = true
							scan(p2)
						}
						continue
					}
					used = true
					if sl, isSlice := r.(*ssa.Slice); isSlice {
						if k, okc := constInt(sl.High); okc && k == 0 && sl.Low == nil {
							continue
						}
					}
					onlyReset = false
				}
			}
			scan(ph)
			// loop-carried only matters when some back edge carries something else than the initial value
			carried := false
			for i, e := range ph.Edges {
				if loop[head.Preds[i]] && e != ssa.Value(ph) {
					carried = true
				}
			}
			if used && carried && !onlyReset {
				problems = append(problems, fmt.Sprintf("variable %s keeps its value from the previous segment's round (it is not re-initialised inside the loop) and is read there", strings.TrimPrefix(ph.Comment, "")))
			}
		}
		c.Check(len(problems) == 0, key, c.Pos(head.Instrs[0].Pos()), "every value read in a round is (re)initialised in that round; scratch slices are reset with [:0]", uniqJoin(problems)+": the result for a segment depends on which segments precede it (layout dependence)")
	}
}

// ruleC08R6: after the key of a heap element was changed in place, heap.Fix (or Pop/Init) must
// run before the heap's elements are read again.
func ruleC08R6(c *Ctx) {
	hi := c.Iface("container/heap", "Interface")
	n := 0
	for _, tn := range c.Light().named {
		if tn.Obj().Pkg().Path() != pkgIndex || !(types.Implements(tn, hi) || types.Implements(types.NewPointer(tn), hi)) {
			continue
		}
		// backing slice: the field whose len() the Len method returns
		lenM := methodOfNamed(c, tn, "Len")
		var backing *types.Var
		if lenM != nil {
			eachInstr(lenM, func(in ssa.Instruction) {
				if call, ok := in.(*ssa.Call); ok && builtinName(call.Common()) == "len" {
					if f, _ := loadedField(call.Common().Args[0]); f != nil {
						backing = f
					}
				}
			})
		}
		if backing == nil {
			continue
		}
		for _, fn := range c.FuncsIn(pkgIndex) {
			if methodRecvNamed(fn) != tn || fn.Parent() != nil {
				continue
			}
			switch fn.Name() {
			case "Len", "Less", "Swap", "Push", "Pop":
				continue
			}
			isElemAddr := func(v ssa.Value) bool {
				return dependsOnStop(v, func(y ssa.Value) bool {
					ia, ok := y.(*ssa.IndexAddr)
					if !ok {
						return false
					}
					f, _ := loadedField(ia.X)
					return f == backing
				}, func(y ssa.Value) bool { _, isCall := y.(*ssa.Call); return isCall })
			}
			modifies := false
			eachInstr(fn, func(in ssa.Instruction) {
				if st, ok := in.(*ssa.Store); ok {
					if fa, ok := st.Addr.(*ssa.FieldAddr); ok && isElemAddr(fa.X) {
						modifies = true
					}
				}
			})
			if !modifies {
				continue
			}
			n++
			key := "heap order restored after in-place key change in " + FuncName(fn)
			const fDirty uint64 = 1
			var problems []string
			ex := &Explorer{Fn: fn}
			ex.OnInstr = func(in ssa.Instruction, st *PState) bool {
				switch x := in.(type) {
				case *ssa.Store:
					if fa, ok := x.Addr.(*ssa.FieldAddr); ok && isElemAddr(fa.X) {
						st.Flags |= fDirty
					}
				case *ssa.Call:
					if f := x.Common().StaticCallee(); f != nil && f.Pkg != nil && f.Pkg.Pkg.Path() == "container/heap" {
						st.Flags &^= fDirty
					}
				case *ssa.UnOp:
					if x.Op == token.MUL && st.Flags&fDirty != 0 {
						if ia, ok := x.X.(*ssa.IndexAddr); ok {
							if f, _ := loadedField(ia.X); f == backing {
								problems = append(problems, "an element of the heap is read at "+c.Pos(in.Pos())+" after a key was changed in place and before heap.Fix restored the order")
								return false
							}
						}
					}
				}
				return true
			}
			ex.OnReturn = func(r *ssa.Return, st *PState) {
				if st.Flags&fDirty != 0 {
					problems = append(problems, "the method returns at "+c.Pos(r.Pos())+" with the heap order not restored")
				}
			}
			ex.Run()
			c.Check(len(problems) == 0 && !ex.Exceeded, key, c.Pos(fn.Pos()), "every in-place change of an element is followed by heap.Fix/Pop before the heap is read or the method returns", uniqJoin(problems))
		}
	}
	if n == 0 {
		c.Undecided("heap users in package index", "-", "no method modifying a heap element in place found (rule table stale)")
	}
}

// callerLower: for an access in an unexported helper whose path is rooted at a parameter,
// the bound that every static call site of the helper establishes for the corresponding
// argument path, provided nothing in the helper can shrink the list before the access.
func callerLower(c *Ctx, fn *ssa.Function, in ssa.Instruction, path string, lowerAt func(*ssa.Function, ssa.Instruction, string, ssa.Value) int64, noShrink func(*ssa.Function) bool) (int64, bool) {
	if fn.Object() == nil || fn.Object().Exported() || fn.Parent() != nil {
		return 0, false
	}
	stars := len(path) - len(strings.TrimLeft(path, "*"))
	rest := path[stars:]
	if !strings.HasPrefix(rest, "p:") {
		return 0, false
	}
	var param *ssa.Parameter
	pidx := -1
	for i, p := range fn.Params {
		pp := "p:" + p.Name()
		if rest == pp || strings.HasPrefix(rest, pp+".") || strings.HasPrefix(rest, pp+"[") {
			if param == nil || len(p.Name()) > len(param.Name()) {
				param, pidx = p, i
			}
		}
	}
	if param == nil {
		return 0, false
	}
	// a possibly-shrinking operation in the helper before the access
	shrunk := false
	eachInstr(fn, func(kk ssa.Instruction) {
		isKill := false
		switch y := kk.(type) {
		case *ssa.Store:
			if ap := accessPath(y.Addr); ap != "" && "*"+ap == path {
				isKill = true
			}
		case *ssa.Call:
			if noShrink(y.Common().StaticCallee()) || builtinName(y.Common()) != "" {
				break
			}
			for _, arg := range y.Common().Args {
				ap := accessPath(stripIface(arg))
				if ap != "" && strings.HasPrefix(strings.TrimLeft(path, "*"), strings.TrimLeft(ap, "*")+".") {
					isKill = true
				}
			}
		}
		if isKill && (kk.Block() == in.Block() && instrIndex(kk) < instrIndex(in) || kk.Block() != in.Block() && blockReach(fn)[kk.Block().Index][in.Block().Index]) {
			shrunk = true
		}
	})
	if shrunk {
		return 0, false
	}
	// the helper's address must not be taken (all callers are the static call sites)
	sites := 0
	best := int64(-1)
	okAll := true
	for _, g := range c.SrcFuncs() {
		eachInstr(g, func(x ssa.Instruction) {
			for _, op := range x.Operands(nil) {
				if *op == ssa.Value(fn) {
					cc := callOf(x)
					if cc == nil || cc.Value != ssa.Value(fn) {
						okAll = false
					}
				}
			}
			cc := callOf(x)
			if cc == nil || cc.StaticCallee() != fn {
				return
			}
			if _, isCall := x.(*ssa.Call); !isCall {
				okAll = false // go / defer: runs at another time than the guard
				return
			}
			sites++
			if pidx >= len(cc.Args) {
				okAll = false
				return
			}
			ap := accessPath(cc.Args[pidx])
			if ap == "" {
				okAll = false
				return
			}
			tpath := strings.Repeat("*", stars) + ap + rest[len("p:"+param.Name()):]
			lo := lowerAt(g, x, tpath, nil)
			if best < 0 || lo < best {
				best = lo
			}
		})
	}
	if !okAll || sites == 0 || best < 0 {
		return 0, false
	}
	return best, true
}
