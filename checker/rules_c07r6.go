package main

import (
	"fmt"
	"go/constant"
	"go/token"

	"golang.org/x/tools/go/ssa"
)

// C07.R6: the byte prefix used to narrow the dictionary scan of a regexp query must be a
// prefix of every term the automaton accepts. Runes of a parse-tree node are such a prefix
// only when the node is a literal matched case-sensitively: for a case-folded literal
// ((?i)abc, [aA]bc) the parser stores one canonical spelling and the automaton accepts all
// the others. Every read of syntax.Regexp.Rune must therefore sit behind Op == OpLiteral and
// Flags&FoldCase == 0 of the same node.

func init() {
	registerRule(&RuleInfo{ID: "C07.R6", Title: "a regexp's literal prefix is taken only from case-sensitive literal nodes", Floor: 1, Run: ruleC07R6,
		Covers: "every read of regexp/syntax.Regexp.Rune in the module"})
}

func ruleC07R6(c *Ctx) {
	n := 0
	for _, fn := range c.SrcFuncs() {
		eachInstr(fn, func(in ssa.Instruction) {
			fa, ok := in.(*ssa.FieldAddr)
			if !ok {
				return
			}
			fv := fieldVar(fa)
			if fv == nil || fv.Name() != "Rune" || fv.Pkg() == nil || fv.Pkg().Path() != "regexp/syntax" {
				return
			}
			n++
			key := fmt.Sprintf("read #%d of syntax.Regexp.Rune in %s", n, FuncName(fn))
			node := fa.X
			opOK, foldOK := false, false
			eachInstr(fn, func(g ssa.Instruction) {
				iff, ok := g.(*ssa.If)
				if !ok {
					return
				}
				b, ok := iff.Cond.(*ssa.BinOp)
				if !ok || b.Op != token.EQL && b.Op != token.NEQ {
					return
				}
				edge := 0
				if b.Op == token.NEQ {
					edge = 1
				}
				if !edgeDominates(iff, edge, fa.Block()) {
					return
				}
				cst, isC := b.Y.(*ssa.Const)
				if !isC || cst.Value == nil || cst.Value.Kind() != constant.Int {
					return
				}
				k, _ := constant.Int64Val(cst.Value)
				// node.Op == OpLiteral
				if f, base := loadedField(b.X); f != nil && f.Name() == "Op" && sameNode(base, node) && k == opLiteralValue(c) {
					opOK = true
				}
				// node.Flags & FoldCase == 0
				if and, isAnd := b.X.(*ssa.BinOp); isAnd && and.Op == token.AND && k == 0 {
					for _, pair := range [][2]ssa.Value{{and.X, and.Y}, {and.Y, and.X}} {
						f, base := loadedField(pair[0])
						m, isM := pair[1].(*ssa.Const)
						if f != nil && f.Name() == "Flags" && sameNode(base, node) && isM && m.Value != nil {
							if mv, _ := constant.Int64Val(m.Value); mv == foldCaseValue(c) {
								foldOK = true
							}
						}
					}
				}
			})
			c.Check(opOK && foldOK, key, c.Pos(fa.Pos()), "behind Op == OpLiteral and Flags&FoldCase == 0 of the same node",
				fmt.Sprintf("the runes of a parse-tree node are used as a term prefix without both guards (literal node: %v, case-sensitive: %v): a case-folded literal keeps one canonical spelling, so terms in another case that the automaton accepts are never visited", opOK, foldOK))
		})
	}
}

func sameNode(a, b ssa.Value) bool { return a == b || sameBase(a, b) }

func opLiteralValue(c *Ctx) int64 { return stdConst(c, "regexp/syntax", "OpLiteral") }
func foldCaseValue(c *Ctx) int64  { return stdConst(c, "regexp/syntax", "FoldCase") }

func stdConst(c *Ctx, pkg, name string) int64 {
	for _, p := range c.SSA.AllPackages() {
		if p.Pkg.Path() == pkg {
			if k, ok := p.Members[name].(*ssa.NamedConst); ok {
				v, _ := constant.Int64Val(k.Value.Value)
				return v
			}
		}
	}
	panic(unresolvedAnchor{"const " + pkg + "." + name})
}
