package main

import (
	"fmt"
	"go/token"
	"go/types"
	"sort"
	"strings"

	"golang.org/x/tools/go/ssa"
)

func init() {
	registerProperty(&PropertyInfo{
		ID:         "C02",
		Title:      "An acknowledged batch survives any later crash",
		Rules:      []string{"C02.R1", "C02.R2", "C02.R3", "C02.R4", "C02.R5", "C02.R6", "C02.R7", "C02.R8", "C13.R1", "C13.R2"},
		Decides:    "ordering over ALL control-flow paths instead of sampled crash points: every acknowledgement (close/nil-send on an ack channel, nil call of a persisted-callback) is reachable only behind the success edge of a snapshot persist of the snapshot grabbed together with those acks; acks happen only in the persister goroutine; every segment of a snapshot is persisted (or provably already on disk) before the snapshot that names it, a failed segment persist can never reach the snapshot persist, the deletion policy learns of a commit only after the snapshot persist succeeded; the persister's grab of (root, ack channels, callbacks) and the introducer's swap are each one critical section; safe mode creates a buffered ack channel and Batch returns nil only after receiving from it; plus the file-level durability order of C13. the snapshot written in place of S after an in-memory merge lists only S's own elements or stand-ins built in place (C02.R5).",
		NotCovered: "what the OS does below fsync; that the bytes written are a correct encoding (parts of C12/C13); the actual set of documents in the persisted snapshot (C01/C06).",
	})
	registerRule(&RuleInfo{ID: "C02.R1", Title: "acks only behind a successful persist of the grabbed snapshot, only in the persister", Floor: 5, Run: ruleC02R1,
		Covers: "must-pass-through (success edge) for every ack site; who-may-ack; provenance of the persisted snapshot"})
	registerRule(&RuleInfo{ID: "C02.R2", Title: "segments are durable before the snapshot that names them; commit after persist", Floor: 4, Run: ruleC02R2,
		Covers: "loop/skip discipline of segment persists before each snapshot persist; who sets persisted=true; Commit on the success edge"})
	registerRule(&RuleInfo{ID: "C02.R3", Title: "grab of (root, acks) and swap of (root, acks) are single critical sections", Floor: 2, Run: ruleC02R3,
		Covers: "critical-section instance identity for the accesses to Writer.root/rootPersisted/persistedCallbacks"})
	registerRule(&RuleInfo{ID: "C02.R4", Title: "safe mode: buffered ack channel created unless UnsafeBatch; Batch returns nil only after receiving from it", Floor: 2, Run: ruleC02R4,
		Covers: "path-sensitive typestate over the function that builds a segmentIntroduction; channel hand-over to the root swap"})
}

const (
	dfSnapPersisted       uint64 = 1 << iota // a snapshot persist succeeded (since the last grab)
	dfSegFailed                              // a segment persist failed on this path
	dfSegPersisted                           // a segment persist succeeded (this loop iteration)
	dfSkipOK                                 // Persisted() was true (this loop iteration)
	dfSent                                   // an error was sent on the ack channel (current channel)
	dfNeedPersist                            // Commit happened in a callee before any local persist: caller must have persisted
	dfBadSnapAfterSegFail                    // snapshot persist reached although a segment persist failed
	dfLoadedSeg                              // a segment item was loaded successfully
	dfSkipBad
)

// durabilityModel: site outcomes for Directory.Persist / DeletionPolicy.Commit.
type durabilityModel struct {
	p   *Program
	a   *IdxAnchors
	sum *Summarizer
}

func newDurabilityModel(p *Program) *durabilityModel {
	m := &durabilityModel{p: p, a: p.Idx()}
	m.sum = &Summarizer{SiteOutcomes: m.outcomes}
	m.sum.Combine = func(caller, callee uint64) uint64 {
		f := caller | callee
		if caller&dfSnapPersisted != 0 {
			f &^= dfNeedPersist
		}
		return f
	}
	m.sum.OnInstr = func(fn *ssa.Function, in ssa.Instruction, st *PState) bool {
		if cc := callOf(in); cc != nil && callsIfaceMethod(cc, m.a.DPCommit) {
			if st.Flags&dfSnapPersisted == 0 {
				st.Flags |= dfNeedPersist
			}
		}
		return true
	}
	return m
}

func (m *durabilityModel) outcomes(call ssa.CallInstruction, st *PState) []Outcome {
	cc := call.Common()
	if m.a.isDirCall(cc, m.a.DirPersist, m.a.KindSnapshot) {
		var f uint64 = dfSnapPersisted
		if st.Flags&dfSegFailed != 0 {
			f |= dfBadSnapAfterSegFail
		}
		return []Outcome{{Results: []Tri{TriNo}, Flags: f}, {Results: []Tri{TriYes}}}
	}
	if m.a.isDirCall(cc, m.a.DirPersist, m.a.KindSegment) {
		return []Outcome{{Results: []Tri{TriNo}, Flags: dfSegPersisted}, {Results: []Tri{TriYes}, Flags: dfSegFailed}}
	}
	return nil
}

// guarantees: every return of fn with a possibly-nil error (and, for (bool,error)
// functions, a possibly-true bool) has passed a successful snapshot persist.
func (m *durabilityModel) guarantees(fn *ssa.Function) bool {
	outs := m.sum.Summary(fn)
	if len(outs) == 0 {
		return false
	}
	ei := fnErrIdx(fn)
	if ei < 0 {
		return false
	}
	for _, o := range outs {
		if ei < len(o.Results) && o.Results[ei] == TriYes {
			continue
		}
		if o.Flags&dfSnapPersisted == 0 {
			// (bool, error): a false bool means "not persisted, caller continues"
			if fn.Signature.Results().Len() == 2 && ei == 1 && isBoolType(fn.Signature.Results().At(0).Type()) && o.Results[0] == TriNo {
				continue
			}
			return false
		}
	}
	return true
}

func isBoolType(t types.Type) bool {
	b, ok := t.Underlying().(*types.Basic)
	return ok && b.Kind() == types.Bool
}

// persisterRoot finds the background goroutine that persists snapshots: the `go` target
// in OpenWriter that reaches a snapshot persist site.
func persisterRoots(p *Program) (roots []*ssa.Function, others []*ssa.Function) {
	a := p.Idx()
	g := p.Light()
	for _, t := range goTargets(a.OpenWriter) {
		reach := g.Reach(t)
		found := false
		for fn := range reach {
			if !p.InRepo(fn) {
				continue
			}
			eachInstr(fn, func(in ssa.Instruction) {
				if cc := callOf(in); cc != nil && cc.IsInvoke() && a.isDirCall(cc, a.DirPersist, a.KindSnapshot) {
					found = true
				}
			})
		}
		if found {
			roots = append(roots, t)
		} else {
			others = append(others, t)
		}
	}
	return
}

type ackSite struct {
	fn   *ssa.Function
	in   ssa.Instruction
	kind string // close | send | callback
	val  ssa.Value
}

// ackSites enumerates, in package index, every close/send on a channel and every call of a
// function value that derives from the ack carriers (Writer.rootPersisted,
// segmentIntroduction.persisted, Writer.persistedCallbacks,
// segmentIntroduction.persistedCallback, Batch.persistedCallback).
func ackSites(p *Program) []ackSite {
	a := p.Idx()
	chanCarriers := []*types.Var{a.WRootPersisted, a.SIPersisted}
	cbCarriers := []*types.Var{a.WPersistedCallbacks, a.SICallback, a.BatchCallback}
	var rv []ackSite
	for _, fn := range p.FuncsIn(pkgIndex) {
		eachInstr(fn, func(in ssa.Instruction) {
			switch x := in.(type) {
			case *ssa.Send:
				if dependsOnField(x.Chan, chanCarriers...) {
					rv = append(rv, ackSite{fn, in, "send", x.X})
				}
			case ssa.CallInstruction:
				cc := x.Common()
				if builtinName(cc) == "close" && len(cc.Args) == 1 && dependsOnField(cc.Args[0], chanCarriers...) {
					rv = append(rv, ackSite{fn, in, "close", nil})
					return
				}
				if !cc.IsInvoke() && cc.StaticCallee() == nil {
					if _, isBuiltin := cc.Value.(*ssa.Builtin); !isBuiltin && dependsOnField(cc.Value, cbCarriers...) {
						var arg ssa.Value
						if len(cc.Args) == 1 {
							arg = cc.Args[0]
						}
						rv = append(rv, ackSite{fn, in, "callback", arg})
					}
				}
			}
		})
	}
	return rv
}

func ruleC02R1(c *Ctx) {
	a := c.Idx()
	m := newDurabilityModel(c.Program)
	roots, _ := persisterRoots(c.Program)
	if len(roots) != 1 {
		c.Undecided("persister goroutine root", c.Pos(a.OpenWriter.Pos()), fmt.Sprintf("expected exactly one `go` target of OpenWriter that reaches a snapshot persist, found %d", len(roots)))
		return
	}
	root := roots[0]
	g := c.Light()
	reach := g.Reach(root)
	sites := ackSites(c.Program)

	// (iv) who may ack
	inRoot := map[ssa.Instruction]*ackSite{}
	helperFns := map[*ssa.Function]bool{}
	for i := range sites {
		s := &sites[i]
		top := enclosingTop(s.fn)
		key := fmt.Sprintf("ack %s in %s", s.kind, FuncName(s.fn))
		if !reach[s.fn] && !reach[top] {
			c.Violate(key+" [who-may-ack]", c.Pos(s.in.Pos()), "acknowledgement outside the persister goroutine: a batch can be acknowledged without any persist")
			continue
		}
		if s.fn == root {
			inRoot[s.in] = s
		} else {
			helperFns[s.fn] = true
		}
	}
	// helpers containing acks are treated as ack sites at their call sites in the root
	ackCallee := map[*ssa.Function]bool{}
	for f := range helperFns {
		ackCallee[f] = true
	}
	for changed := true; changed; {
		changed = false
		for f := range ackCallee {
			for _, cs := range g.Callers(f) {
				if cs.Caller != root && !ackCallee[cs.Caller] && reach[cs.Caller] {
					ackCallee[cs.Caller] = true
					changed = true
				}
			}
		}
	}

	// path rule inside the root
	bad := map[ssa.Instruction]string{}
	visited := map[ssa.Instruction]bool{}
	var guarCalls []ssa.CallInstruction
	ex := m.sum.Explorer(root)
	baseOn := ex.OnInstr
	ex.OnInstr = func(in ssa.Instruction, st *PState) bool {
		if baseOn != nil {
			baseOn(in, st)
		}
		// the grab: loading the pending acks starts a new round
		if u, ok := in.(*ssa.UnOp); ok && u.Op == token.MUL {
			if isFieldAddr(u.X, a.WRootPersisted) || isFieldAddr(u.X, a.WPersistedCallbacks) {
				st.Flags &^= dfSnapPersisted | dfSent
			}
		}
		// ... also when the grab was extracted into a helper
		if ci, ok := in.(*ssa.Call); ok {
			if callee := ci.Common().StaticCallee(); callee != nil && callee.Blocks != nil && c.InRepo(callee) && readsAckFields(callee, a) {
				st.Flags &^= dfSnapPersisted | dfSent
			}
		}
		s := inRoot[in]
		if s == nil {
			if ci, ok := in.(ssa.CallInstruction); ok {
				if callee := ci.Common().StaticCallee(); callee != nil && ackCallee[callee] {
					visited[in] = true
					okArg := false
					for _, arg := range ci.Common().Args {
						if isErrorType(arg.Type()) && st.Eval(arg) == TriYes {
							okArg = true
						}
					}
					if st.Flags&dfSnapPersisted == 0 && !okArg {
						bad[in] = "a path reaches this acknowledging helper call without a successful snapshot persist and without a non-nil error argument"
					}
				}
			}
			return true
		}
		visited[in] = true
		switch s.kind {
		case "send":
			if st.Eval(s.val) == TriYes {
				st.Flags |= dfSent
			} else if st.Flags&dfSnapPersisted == 0 {
				bad[in] = "a possibly-nil value is sent on an ack channel on a path without a successful snapshot persist"
			}
		case "close":
			if st.Flags&(dfSnapPersisted|dfSent) == 0 {
				bad[in] = "the ack channel is closed (waiting Batch reads nil) on a path where the snapshot persist did not succeed and no error was sent on it"
			}
			st.Flags &^= dfSent
		case "callback":
			if s.val != nil && st.Eval(s.val) == TriYes {
				break
			}
			if st.Flags&dfSnapPersisted == 0 {
				bad[in] = "a persisted-callback is invoked with a possibly-nil error on a path without a successful snapshot persist"
			}
		}
		return true
	}
	ex.Run()
	if ex.Exceeded || m.sum.Exceeded {
		c.Undecided("ack paths of "+FuncName(root), c.Pos(root.Pos()), "path exploration did not finish")
		return
	}
	counts := map[string]int{}
	var ins []ssa.Instruction
	for in := range inRoot {
		ins = append(ins, in)
	}
	sort.Slice(ins, func(i, j int) bool { return ins[i].Pos() < ins[j].Pos() })
	for _, in := range ins {
		s := inRoot[in]
		counts[s.kind]++
		key := fmt.Sprintf("ack %s #%d in %s", s.kind, counts[s.kind], FuncName(root))
		if !visited[in] {
			c.OK(key, c.Pos(in.Pos()), "unreachable in the abstract exploration")
			continue
		}
		c.Check(bad[in] == "", key, c.Pos(in.Pos()), "every path to this acknowledgement passed the success edge of a snapshot persist (or carries the error)", bad[in])
	}
	var hins []ssa.Instruction
	for in := range visited {
		if inRoot[in] == nil {
			hins = append(hins, in)
		}
	}
	sort.Slice(hins, func(i, j int) bool { return hins[i].Pos() < hins[j].Pos() })
	for i, in := range hins {
		key := fmt.Sprintf("acknowledging helper call #%d in %s", i+1, FuncName(root))
		c.Check(bad[in] == "", key, c.Pos(in.Pos()), "behind a successful snapshot persist or with a non-nil error", bad[in])
	}

	// provenance of what is persisted
	// (a) every snapshot persist site reachable from the persister names the item after the snapshot it writes
	for fn := range reach {
		if !c.InRepo(fn) || fn.Blocks == nil {
			continue
		}
		eachInstr(fn, func(in ssa.Instruction) {
			ci, ok := in.(ssa.CallInstruction)
			if !ok || !a.isDirCall(ci.Common(), a.DirPersist, a.KindSnapshot) || !ci.Common().IsInvoke() {
				return
			}
			args := dirArgs(ci.Common())
			key := "snapshot persist names its own epoch in " + FuncName(fn)
			w := stripIface(args[2])
			idOK := false
			if f, base := loadedField(args[1]); f == a.SnapEpoch && sameBase(base, w) {
				idOK = true
			}
			c.Check(idOK, key, c.Pos(in.Pos()), "id argument is the epoch field of the snapshot being written",
				"the id under which the snapshot is persisted is not the epoch of the snapshot written: recovery would order it wrongly")
			guarCalls = append(guarCalls, ci)
		})
	}
	// (b) in the root: the call that guarantees the persist receives the snapshot read from Writer.root
	eachInstr(root, func(in ssa.Instruction) {
		ci, ok := in.(*ssa.Call)
		if !ok {
			return
		}
		callee := ci.Common().StaticCallee()
		if callee == nil || !c.InRepo(callee) || !m.guarantees(callee) {
			return
		}
		okDep := false
		for _, arg := range ci.Common().Args {
			if namedOf(arg.Type()) == a.Snapshot && dependsOnField(arg, a.WRoot) {
				okDep = true
			}
		}
		c.Check(okDep, "persisted snapshot is the grabbed root in "+FuncName(root), c.Pos(in.Pos()),
			"the snapshot handed to "+FuncName(callee)+" derives from the read of Writer.root", "the snapshot handed to the persist call does not derive from the read of Writer.root")
	})
	// (c) below the root: snapshots handed down derive from the function's own snapshot parameter
	for fn := range reach {
		if fn == root || !c.InRepo(fn) || fn.Blocks == nil {
			continue
		}
		eachInstr(fn, func(in ssa.Instruction) {
			ci, ok := in.(*ssa.Call)
			if !ok {
				return
			}
			cc := ci.Common()
			isG := cc.IsInvoke() && a.isDirCall(cc, a.DirPersist, a.KindSnapshot)
			callee := cc.StaticCallee()
			if !isG && (callee == nil || !c.InRepo(callee) || !m.guarantees(callee)) {
				return
			}
			var snapArgs []ssa.Value
			for _, arg := range cc.Args {
				if namedOf(stripIface(arg).Type()) == a.Snapshot {
					snapArgs = append(snapArgs, stripIface(arg))
				}
			}
			if len(snapArgs) == 0 {
				return
			}
			target := "Directory.Persist(snapshot)"
			if !isG {
				target = FuncName(callee)
			}
			key := "snapshot handed to " + target + " in " + FuncName(fn) + " derives from the caller's snapshot"
			okAll := true
			for _, sa := range snapArgs {
				if !snapshotDerivesFromParam(sa, a) {
					okAll = false
				}
			}
			c.Check(okAll, key, c.Pos(in.Pos()), "argument is the function's *Snapshot parameter or a literal whose epoch is that parameter's epoch",
				"the snapshot persisted is neither the snapshot the persister grabbed nor a literal named after its epoch")
		})
	}
}

func stripIface(v ssa.Value) ssa.Value {
	for {
		switch x := v.(type) {
		case *ssa.MakeInterface:
			v = x.X
		case *ssa.ChangeInterface:
			v = x.X
		case *ssa.ChangeType:
			v = x.X
		default:
			return v
		}
	}
}

// snapshotDerivesFromParam: v is a *Snapshot parameter (possibly through phis/cells), or a
// fresh Snapshot literal whose epoch field is stored from a *Snapshot parameter's epoch.
func snapshotDerivesFromParam(v ssa.Value, a *IdxAnchors) bool {
	isSnapParam := func(x ssa.Value) bool {
		p, ok := x.(*ssa.Parameter)
		return ok && namedOf(p.Type()) == a.Snapshot
	}
	if al, ok := v.(*ssa.Alloc); ok {
		// literal: look at the store to its epoch field
		found := false
		if al.Referrers() != nil {
			for _, r := range *al.Referrers() {
				fa, ok := r.(*ssa.FieldAddr)
				if !ok || fieldVar(fa) != a.SnapEpoch || fa.Referrers() == nil {
					continue
				}
				for _, rr := range *fa.Referrers() {
					if st, ok := rr.(*ssa.Store); ok && st.Addr == fa {
						if f, base := loadedField(st.Val); f == a.SnapEpoch && isSnapParam(base) {
							found = true
						} else {
							return false
						}
					}
				}
			}
		}
		return found
	}
	return dependsOnStop(v, isSnapParam, func(x ssa.Value) bool {
		_, isCall := x.(*ssa.Call)
		return isCall
	})
}

// ---- C02.R2 ---------------------------------------------------------------------------

func ruleC02R2(c *Ctx) {
	a := c.Idx()
	roots, _ := persisterRoots(c.Program)
	reach := map[*ssa.Function]bool{}
	if len(roots) == 1 {
		reach = c.Light().Reach(roots[0])
	}
	persistedMethod := c.MethodOpt(pkgIndex, "segmentWrapper", "Persisted")

	// every snapshot persist site whose item is an *index.Snapshot
	for _, fn := range c.FuncsIn(pkgIndex) {
		var gsites []ssa.CallInstruction
		eachInstr(fn, func(in ssa.Instruction) {
			if ci, ok := in.(ssa.CallInstruction); ok && ci.Common().IsInvoke() && a.isDirCall(ci.Common(), a.DirPersist, a.KindSnapshot) {
				if namedOf(stripIface(dirArgs(ci.Common())[2]).Type()) == a.Snapshot {
					gsites = append(gsites, ci)
				}
			}
		})
		for gi, gs := range gsites {
			w := stripIface(dirArgs(gs.Common())[2])
			key := fmt.Sprintf("segments before snapshot persist #%d in %s", gi+1, FuncName(fn))
			pos := c.Pos(gs.Pos())
			if al, ok := w.(*ssa.Alloc); ok {
				// literal snapshot (offline writer): every listed segment id was successfully loaded from the directory before
				c.checkLiteralSnapshotSegmentsLoaded(fn, gs, al, key, pos)
				continue
			}
			// loop over w.segment with a segment persist of the element: in this function, or in a helper
			// that receives the snapshot and is called before the snapshot persist
			loopFn, loopW := fn, w
			var helperCall *ssa.Call
			if len(segPersistSites(a, fn, w)) == 0 {
				eachInstr(fn, func(in ssa.Instruction) {
					ci, ok := in.(*ssa.Call)
					if !ok || helperCall != nil {
						return
					}
					h := ci.Common().StaticCallee()
					if h == nil || h.Blocks == nil || funcPkgPath(h) != pkgIndex {
						return
					}
					for i, arg := range ci.Common().Args {
						if (arg == w || sameBase(arg, w)) && i < len(h.Params) && len(segPersistSites(a, h, h.Params[i])) > 0 {
							helperCall, loopFn, loopW = ci, h, h.Params[i]
						}
					}
				})
			}
			segSites := segPersistSites(a, loopFn, loopW)
			if len(segSites) == 0 {
				c.Violate(key, pos, "no Directory.Persist(ItemKindSegment, elem.id, elem.segment) over the elements of the snapshot's segment list precedes the snapshot persist")
				continue
			}
			seg := segSites[0]
			loopHead := enclosingLoopHeader(seg.Block())
			if loopHead == nil {
				c.Violate(key, pos, "the segment persist is not inside a loop over the snapshot's segments")
				continue
			}
			inLoop := naturalLoop(loopHead)
			var problems []string
			if helperCall == nil {
				if inLoop[gs.Block()] {
					problems = append(problems, "the snapshot persist is inside the segment loop")
				}
				if !loopHead.Dominates(gs.Block()) {
					problems = append(problems, "the segment loop does not dominate the snapshot persist")
				}
			} else {
				if !(helperCall.Block() == gs.Block() && instrIndex(helperCall) < instrIndex(gs) || helperCall.Block() != gs.Block() && helperCall.Block().Dominates(gs.Block())) {
					problems = append(problems, "the helper that persists the segments does not dominate the snapshot persist")
				}
				eachInstr(loopFn, func(in ssa.Instruction) {
					if r, ok := in.(*ssa.Return); ok && !loopHead.Dominates(r.Block()) {
						problems = append(problems, "the helper "+FuncName(loopFn)+" can return without having entered its segment loop")
					}
				})
			}
			// path rule: per-iteration skip discipline and failure containment
			allowSkip := reach[fn]
			m := newDurabilityModel(c.Program)
			badSkip, badFail := false, false
			exceeded := false
			{
				ex := m.sum.Explorer(loopFn)
				prevOut := ex.Outcomes
				ex.Outcomes = func(call ssa.CallInstruction, st *PState) []Outcome {
					if persistedMethod != nil && call.Common().StaticCallee() == persistedMethod && inLoop[call.Block()] {
						return []Outcome{{Results: []Tri{TriYes}, Flags: dfSkipOK}, {Results: []Tri{TriNo}}}
					}
					return prevOut(call, st)
				}
				if helperCall == nil {
					base := ex.OnInstr
					ex.OnInstr = func(in ssa.Instruction, st *PState) bool {
						if base != nil {
							base(in, st)
						}
						if in == gs && st.Flags&dfSegFailed != 0 {
							badFail = true
						}
						return true
					}
				} else {
					// a failed segment persist must make the helper report an error
					ei := fnErrIdx(loopFn)
					ex.OnReturn = func(r *ssa.Return, st *PState) {
						if st.Flags&dfSegFailed != 0 && (ei < 0 || ei >= len(r.Results) || st.Eval(r.Results[ei]) != TriYes) {
							badFail = true
						}
					}
				}
				ex.OnEdge = func(from, to *ssa.BasicBlock, st *PState) {
					if to == loopHead {
						if inLoop[from] { // back edge: one iteration finished
							if st.Flags&dfSegPersisted == 0 && (st.Flags&dfSkipOK == 0 || !allowSkip) {
								badSkip = true
							}
						}
						st.Flags &^= dfSegPersisted | dfSkipOK
					}
				}
				ex.Run()
				exceeded = exceeded || ex.Exceeded
			}
			if helperCall != nil {
				// in the caller: the snapshot persist is unreachable once the helper reported a failed segment persist
				ex := m.sum.Explorer(fn)
				base := ex.OnInstr
				ex.OnInstr = func(in ssa.Instruction, st *PState) bool {
					if base != nil {
						base(in, st)
					}
					if in == gs && st.Flags&dfSegFailed != 0 {
						badFail = true
					}
					return true
				}
				ex.Run()
				exceeded = exceeded || ex.Exceeded
			}
			if exceeded {
				c.Undecided(key, pos, "path exploration did not finish")
				continue
			}
			if badSkip {
				if allowSkip {
					problems = append(problems, "an iteration of the segment loop can finish without persisting the element although its Persisted() is not known to be true")
				} else {
					problems = append(problems, "an iteration of the segment loop can finish without persisting the element (no skip is allowed outside the persister: the target directory does not hold the segment yet)")
				}
			}
			if badFail {
				problems = append(problems, "the snapshot persist is reachable on a path where a segment persist failed")
			}
			c.Check(len(problems) == 0, key, pos, "dominated by the exit of the loop that persists every not-yet-persisted element; a failed segment persist cannot reach it", strings.Join(problems, "; "))
		}
	}

	// who sets segmentWrapper.persisted
	fPersisted := c.Field(pkgIndex, "segmentWrapper", "persisted")
	fSegment := c.Field(pkgIndex, "segmentWrapper", "Segment")
	pluginLoad := c.Field(pkgIndex, "SegmentPlugin", "Load")
	n := 0
	for _, fn := range c.FuncsIn(pkgIndex) {
		for _, st := range storesToField(fn, fPersisted) {
			n++
			key := fmt.Sprintf("persisted=true set #%d in %s", n, FuncName(fn))
			if b, ok := constBool(st.Val); ok && !b {
				c.OK(key, c.Pos(st.Pos()), "stores false")
				continue
			}
			fa := st.Addr.(*ssa.FieldAddr)
			al, isAlloc := fa.X.(*ssa.Alloc)
			if !isAlloc {
				c.Violate(key, c.Pos(st.Pos()), "persisted is set on an existing wrapper (only wrappers built from a directory load may claim to be persisted)")
				continue
			}
			// the literal's Segment must come from plugin.Load(data) with data from Directory.Load(ItemKindSegment, ..)
			ok := false
			for _, r := range *al.Referrers() {
				fa2, isFA := r.(*ssa.FieldAddr)
				if !isFA || fieldVar(fa2) != fSegment || fa2.Referrers() == nil {
					continue
				}
				for _, rr := range *fa2.Referrers() {
					s2, isSt := rr.(*ssa.Store)
					if !isSt || s2.Addr != fa2 {
						continue
					}
					ok = dependsOn(s2.Val, func(x ssa.Value) bool {
						call, isCall := x.(*ssa.Call)
						if !isCall || !loadsField(call.Common().Value, pluginLoad) {
							return false
						}
						return dependsOn(call.Common().Args[0], func(y ssa.Value) bool {
							c2, isCall := y.(*ssa.Call)
							return isCall && a.isDirCall(c2.Common(), a.DirLoad, a.KindSegment)
						})
					})
				}
			}
			c.Check(ok, key, c.Pos(st.Pos()), "wrapper built from SegmentPlugin.Load(Directory.Load(ItemKindSegment, ..))",
				"a wrapper is marked persisted although its segment does not come from loading the persisted item: the persister would skip writing it")
		}
	}

	// Commit only behind a successful snapshot persist, inside the persister
	if len(roots) == 1 {
		m := newDurabilityModel(c.Program)
		ex := m.sum.Explorer(roots[0])
		need := false
		base := ex.OnInstr
		ex.OnInstr = func(in ssa.Instruction, st *PState) bool {
			base(in, st)
			if st.Flags&dfNeedPersist != 0 {
				need = true
			}
			return true
		}
		ex.OnReturn = func(r *ssa.Return, st *PState) {
			if st.Flags&dfNeedPersist != 0 {
				need = true
			}
		}
		ex.Run()
		nCommit := 0
		for fn := range reach {
			if c.InRepo(fn) && fn.Blocks != nil {
				eachInstr(fn, func(in ssa.Instruction) {
					if cc := callOf(in); cc != nil && cc.IsInvoke() && callsIfaceMethod(cc, a.DPCommit) {
						nCommit++
					}
				})
			}
		}
		if nCommit == 0 {
			c.Violate("deletion policy Commit in the persister", c.Pos(roots[0].Pos()), "the persister never informs the deletion policy of a commit")
		} else {
			c.Check(!need && !ex.Exceeded, "deletion policy Commit behind the snapshot persist in the persister", c.Pos(roots[0].Pos()),
				fmt.Sprintf("%d Commit site(s) reachable from the persister, each only on paths behind a successful snapshot persist", nCommit),
				"DeletionPolicy.Commit is reachable in the persister on a path without a successful snapshot persist: files of the previous commit could be removed although the new snapshot is not durable")
		}
	}
}

func (c *Ctx) checkLiteralSnapshotSegmentsLoaded(fn *ssa.Function, gs ssa.CallInstruction, al *ssa.Alloc, key, pos string) {
	a := c.Idx()
	// collect ids of segmentSnapshot literals created in fn
	var idVals []ssa.Value
	eachInstr(fn, func(in ssa.Instruction) {
		st, ok := in.(*ssa.Store)
		if !ok || !isFieldAddr(st.Addr, a.SSID) {
			return
		}
		idVals = append(idVals, st.Val)
	})
	if len(idVals) == 0 {
		c.Violate(key, pos, "literal snapshot without identifiable segment ids")
		return
	}
	// successful Directory.Load(ItemKindSegment, id) sites dominating the persist
	var loaded []string
	eachInstr(fn, func(in ssa.Instruction) {
		ci, ok := in.(*ssa.Call)
		if !ok || !a.isDirCall(ci.Common(), a.DirLoad, a.KindSegment) {
			return
		}
		ev := errResult(ci)
		if ev == nil {
			return
		}
		if !onSuccessEdge(ci, gs) {
			return
		}
		loaded = append(loaded, accessPath(dirArgs(ci.Common())[1]))
	})
	okAll := true
	for _, id := range idVals {
		ap := accessPath(id)
		hit := false
		for _, l := range loaded {
			if ap != "" && ap == l {
				hit = true
			}
		}
		if !hit {
			okAll = false
		}
	}
	c.Check(okAll, key, pos, "every segment id listed in the literal snapshot was successfully loaded from the directory on every path to the snapshot persist",
		"the literal snapshot names a segment id that was not (successfully) loaded from the directory before the snapshot persist")
}

// onSuccessEdge: every path from call to target passes the nil-branch of call's error.
func onSuccessEdge(call *ssa.Call, target ssa.Instruction) bool {
	ev := errResult(call)
	if ev == nil {
		return false
	}
	ex := &Explorer{Fn: call.Parent(), Keep: map[ssa.Value]bool{ev: true}}
	bad := false
	seen := false
	ex.OnInstr = func(in ssa.Instruction, st *PState) bool {
		if in == ssa.Instruction(call) {
			return false // next instance
		}
		if in == target {
			seen = true
			if st.Eval(ev) != TriNo {
				bad = true
			}
			return false
		}
		return true
	}
	ex.RunAfter(call, newPState())
	return seen && !bad && !ex.Exceeded && instrDominates(call, target)
}

// enclosingLoopHeader returns the header of the innermost natural loop containing b.
func enclosingLoopHeader(b *ssa.BasicBlock) *ssa.BasicBlock {
	fn := b.Parent()
	var best *ssa.BasicBlock
	bestSize := 1 << 30
	for _, h := range fn.Blocks {
		isHeader := false
		for _, p := range h.Preds {
			if h.Dominates(p) {
				isHeader = true
			}
		}
		if !isHeader {
			continue
		}
		l := naturalLoop(h)
		if l[b] && len(l) < bestSize {
			best, bestSize = h, len(l)
		}
	}
	return best
}

// naturalLoop returns the blocks of the natural loop(s) with header h.
func naturalLoop(h *ssa.BasicBlock) map[*ssa.BasicBlock]bool {
	loop := map[*ssa.BasicBlock]bool{h: true}
	var stack []*ssa.BasicBlock
	for _, p := range h.Preds {
		if h.Dominates(p) && !loop[p] {
			loop[p] = true
			stack = append(stack, p)
		}
	}
	for len(stack) > 0 {
		b := stack[len(stack)-1]
		stack = stack[:len(stack)-1]
		for _, p := range b.Preds {
			if !loop[p] {
				loop[p] = true
				stack = append(stack, p)
			}
		}
	}
	return loop
}

// ---- C02.R3 ---------------------------------------------------------------------------

const (
	lfLocked uint64 = 1 << iota
	lfWLocked
	lfAccessed // a guarded ack/root field was accessed in the current section
	lfDone     // a section with accesses was left
	lfDeferredUnlock
)

func lockCallKind(cc *ssa.CallCommon, field *types.Var) string {
	f := staticCallee(cc)
	if f == nil || f.Pkg == nil || f.Pkg.Pkg.Path() != "sync" || len(cc.Args) == 0 {
		return ""
	}
	if !isFieldAddr(cc.Args[0], field) {
		return ""
	}
	switch f.Name() {
	case "Lock", "RLock", "Unlock", "RUnlock":
		return f.Name()
	}
	return ""
}

func ruleC02R3(c *Ctx) {
	a := c.Idx()
	guarded := []*types.Var{a.WRoot, a.WRootPersisted, a.WPersistedCallbacks}
	ackFields := []*types.Var{a.WRootPersisted, a.WPersistedCallbacks}
	for _, fn := range c.FuncsIn(pkgIndex) {
		touchesAcks := false
		eachInstr(fn, func(in ssa.Instruction) {
			if fa, ok := in.(*ssa.FieldAddr); ok {
				for _, f := range ackFields {
					if fieldVar(fa) == f {
						touchesAcks = true
					}
				}
			}
		})
		if !touchesAcks {
			continue
		}
		key := "single critical section for root+acks in " + FuncName(fn)
		var problems []string
		ex := &Explorer{Fn: fn}
		ex.OnInstr = func(in ssa.Instruction, st *PState) bool {
			accessedBefore := st.Flags&lfAccessed != 0
			if ev := lockStep(in, a.WRootLock, st, lfLocked, lfWLocked, lfDeferredUnlock); ev == "unlock" {
				if accessedBefore {
					st.Flags |= lfDone
				}
				st.Flags &^= lfAccessed
			}
			if callOf(in) != nil {
				return true
			}
			if _, isRun := in.(*ssa.RunDefers); isRun {
				return true
			}
			var addr ssa.Value
			isStore := false
			switch x := in.(type) {
			case *ssa.UnOp:
				if x.Op == token.MUL {
					addr = x.X
				}
			case *ssa.Store:
				addr, isStore = x.Addr, true
			}
			if addr == nil {
				return true
			}
			for _, f := range guarded {
				if !isFieldAddr(addr, f) {
					continue
				}
				if st.Flags&lfLocked == 0 {
					problems = append(problems, fmt.Sprintf("%s of Writer.%s at %s outside any rootLock section", rw(isStore), f.Name(), c.Pos(in.Pos())))
				} else if isStore && st.Flags&lfWLocked == 0 {
					problems = append(problems, fmt.Sprintf("store to Writer.%s at %s under the read lock only", f.Name(), c.Pos(in.Pos())))
				}
				if st.Flags&lfDone != 0 && (f != a.WRoot || isStore) {
					problems = append(problems, fmt.Sprintf("%s of Writer.%s at %s happens in a second critical section: the grab/swap of root and pending acks is not atomic", rw(isStore), f.Name(), c.Pos(in.Pos())))
				}
				st.Flags |= lfAccessed
			}
			return true
		}
		// a new loop round starts a new grab: reset when re-entering the outermost loop header
		ex.OnEdge = func(from, to *ssa.BasicBlock, st *PState) {
			if to.Dominates(from) && enclosingLoopHeader(to) == to && outermostLoop(to) {
				st.Flags &^= lfDone
			}
		}
		ex.Run()
		if ex.Exceeded {
			c.Undecided(key, c.Pos(fn.Pos()), "path exploration did not finish")
			continue
		}
		c.Check(len(problems) == 0, key, c.Pos(fn.Pos()), "all accesses to Writer.root/rootPersisted/persistedCallbacks of one round lie in one rootLock section (write-locked for stores)", uniqJoin(problems))
	}
}

func rw(store bool) string {
	if store {
		return "store"
	}
	return "load"
}

// outermostLoop: header h is not nested inside another natural loop.
func outermostLoop(h *ssa.BasicBlock) bool {
	for _, o := range h.Parent().Blocks {
		if o == h {
			continue
		}
		isHeader := false
		for _, p := range o.Preds {
			if o.Dominates(p) {
				isHeader = true
			}
		}
		if isHeader && naturalLoop(o)[h] {
			return false
		}
	}
	return true
}

// ---- C02.R4 ---------------------------------------------------------------------------

func ruleC02R4(c *Ctx) {
	a := c.Idx()
	fUnsafe := c.Field(pkgIndex, "Config", "UnsafeBatch")
	// functions that build a segmentIntroduction
	for _, fn := range c.FuncsIn(pkgIndex) {
		var lit *ssa.Alloc
		eachInstr(fn, func(in ssa.Instruction) {
			if al, ok := in.(*ssa.Alloc); ok && namedOf(al.Type()) == a.SegIntro && al.Heap {
				lit = al
			}
		})
		if lit == nil {
			continue
		}
		name := FuncName(fn)
		// (1) the persisted channel: created with constant capacity >= 1
		var mk *ssa.MakeChan
		var chanStore *ssa.Store
		for _, st := range storesToField(fn, a.SIPersisted) {
			chanStore = st
			mk, _ = st.Val.(*ssa.MakeChan)
		}
		if chanStore == nil {
			c.Violate("ack channel creation in "+name, c.Pos(fn.Pos()), "the introduction's persisted channel is never created: safe batches cannot wait for durability")
			continue
		}
		capOK := false
		if mk != nil {
			if n, ok := constInt(mk.Size); ok && n >= 1 {
				capOK = true
			}
		}
		c.Check(capOK, "ack channel is buffered in "+name, c.Pos(chanStore.Pos()), "make(chan error, k) with constant k >= 1: the persister never blocks on an acknowledgement",
			"the ack channel is not created with a constant capacity >= 1: the persister's error send could block forever")

		// (2)+(3) path rule
		var unsafeLoad ssa.Value
		eachInstr(fn, func(in ssa.Instruction) {
			if u, ok := in.(*ssa.UnOp); ok && u.Op == token.MUL && isFieldAddr(u.X, fUnsafe) {
				unsafeLoad = u
			}
		})
		const (
			fMade uint64 = 1 << iota
			fSentIntro
			fRecvApplied
			fRecvPersisted
		)
		var pCreate, pOrder, pReturn []string
		var recvPersisted ssa.Value
		ex := &Explorer{Fn: fn, Keep: map[ssa.Value]bool{}}
		if unsafeLoad != nil {
			ex.Keep[unsafeLoad] = true
		}
		ex.OnInstr = func(in ssa.Instruction, st *PState) bool {
			switch x := in.(type) {
			case *ssa.Store:
				if x == chanStore {
					st.Flags |= fMade
					if unsafeLoad != nil && st.Eval(unsafeLoad) != TriNo {
						// created although unsafe (harmless for durability, but then Batch would wait): not a violation of C02
					}
				}
			case *ssa.Send:
				if dependsOnField(x.Chan, a.WIntroductions) {
					st.Flags |= fSentIntro
					if st.Flags&fMade == 0 && (unsafeLoad == nil || st.Eval(unsafeLoad) != TriYes) {
						pCreate = append(pCreate, "the introduction is handed to the introducer without an ack channel on a path where UnsafeBatch is not known to be true")
					}
				}
			case *ssa.UnOp:
				if x.Op == token.ARROW {
					if dependsOnField(x.X, a.SIApplied) {
						st.Flags |= fRecvApplied
						if st.Flags&fSentIntro == 0 {
							pOrder = append(pOrder, "receive from applied before the introduction was sent")
						}
					}
					if dependsOnField(x.X, a.SIPersisted) {
						st.Flags |= fRecvPersisted
						recvPersisted = x
						if st.Flags&fRecvApplied == 0 {
							pOrder = append(pOrder, "receive from persisted before the introduction was applied")
						}
					}
				}
			}
			return true
		}
		ex.OnReturn = func(r *ssa.Return, st *PState) {
			ei := fnErrIdx(fn)
			if ei < 0 {
				return
			}
			rv := r.Results[ei]
			if st.Eval(rv) == TriYes {
				return
			}
			if st.Flags&fMade != 0 {
				if st.Flags&fRecvPersisted == 0 {
					pReturn = append(pReturn, "a path returns a possibly-nil error in safe mode without having received from the persisted channel")
				} else if recvPersisted != nil && st.Canon(rv) != st.Canon(recvPersisted) && st.Eval(rv) != TriYes {
					pReturn = append(pReturn, "the value returned in safe mode is not the value received from the persisted channel")
				}
			}
			if st.Flags&fSentIntro != 0 && st.Flags&fRecvApplied == 0 {
				pReturn = append(pReturn, "a path returns after sending the introduction without waiting for it to be applied")
			}
		}
		ex.Run()
		if ex.Exceeded {
			c.Undecided("safe-mode paths of "+name, c.Pos(fn.Pos()), "path exploration did not finish")
			continue
		}
		c.Check(len(pCreate) == 0, "ack channel exists unless UnsafeBatch in "+name, c.Pos(chanStore.Pos()), "on every path to the hand-over the channel was created unless UnsafeBatch is true", uniqJoin(pCreate))
		c.Check(len(pOrder) == 0 && len(pReturn) == 0, "safe Batch returns the persister's verdict in "+name, c.Pos(fn.Pos()),
			"send -> receive applied -> receive persisted; every possibly-nil return in safe mode returns the value received from the persisted channel", uniqJoin(append(pOrder, pReturn...)))
	}
	// (4) hand-over: the root swap receives exactly the introduction's channel and callback
	n := 0
	for _, fn := range c.FuncsIn(pkgIndex) {
		eachInstr(fn, func(in ssa.Instruction) {
			ci, ok := in.(*ssa.Call)
			if !ok {
				return
			}
			callee := ci.Common().StaticCallee()
			if callee == nil || !isRootSwapper(callee, a) {
				return
			}
			var chArg, cbArg ssa.Value
			for _, arg := range ci.Common().Args {
				switch t := arg.Type().Underlying().(type) {
				case *types.Chan:
					if isErrorType(t.Elem()) {
						chArg = arg
					}
				case *types.Signature:
					cbArg = arg
				}
			}
			if chArg == nil || isNilConst(chArg) && (cbArg == nil || isNilConst(cbArg)) {
				return
			}
			n++
			key := fmt.Sprintf("ack hand-over #%d to %s in %s", n, FuncName(callee), FuncName(fn))
			f1, b1 := loadedField(chArg)
			f2, b2 := loadedField(cbArg)
			ok2 := f1 == a.SIPersisted && f2 == a.SICallback && sameBase(b1, b2)
			c.Check(ok2, key, c.Pos(in.Pos()), "the swap registers the persisted channel and callback of the same introduction whose segment it publishes",
				"the root swap does not register the introduction's own persisted channel and callback: the batch would be acknowledged by the wrong persist or never")
		})
	}
	if n == 0 {
		c.Violate("ack hand-over to the root swap", "-", "no call registers an introduction's persisted channel with the root swap")
	}
}

// isRootSwapper: the function stores to Writer.root on a non-fresh Writer (the swap point).
func isRootSwapper(fn *ssa.Function, a *IdxAnchors) bool {
	if fn.Blocks == nil {
		return false
	}
	for _, st := range storesToField(fn, a.WRoot) {
		fa := st.Addr.(*ssa.FieldAddr)
		if !isFreshLocal(fa.X) {
			return true
		}
	}
	return false
}

// segPersistSites: the Directory.Persist(ItemKindSegment, elem.id, elem.segment) calls of fn
// whose id and item are taken from an element of w.segment.
func segPersistSites(a *IdxAnchors, fn *ssa.Function, w ssa.Value) []ssa.CallInstruction {
	var segSites []ssa.CallInstruction
	eachInstr(fn, func(in ssa.Instruction) {
		ci, ok := in.(ssa.CallInstruction)
		if !ok || !ci.Common().IsInvoke() || !a.isDirCall(ci.Common(), a.DirPersist, a.KindSegment) {
			return
		}
		args := dirArgs(ci.Common())
		elemOf := func(v ssa.Value) bool {
			return dependsOn(v, func(x ssa.Value) bool {
				ia, ok := x.(*ssa.IndexAddr)
				if !ok {
					return false
				}
				f, base := loadedField(ia.X)
				return f == a.SnapSegment && (base == w || sameBase(base, w))
			})
		}
		if elemOf(args[1]) && elemOf(args[2]) {
			segSites = append(segSites, ci)
		}
	})
	return segSites
}
