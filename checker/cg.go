package main

import (
	"go/types"
	"sort"
	"strings"

	"golang.org/x/tools/go/ssa"
)

// LightCG is a call graph restricted to what the rules need and can trust without
// pointer analysis: static calls, closures created (a closure is assumed callable by
// its creator), and interface invokes resolved to every bluge method implementing the
// interface method (CHA restricted to the repository). Calls through plain function
// values other than closures created in place are not resolved (stated limitation);
// the x/tools CHA/VTA graphs are available for cross-checks.
type LightCG struct {
	p       *Program
	callees map[*ssa.Function][]*ssa.Function
	callers map[*ssa.Function][]CallSite
	impls   map[string][]*ssa.Function // interface method id -> implementations
	named   []*types.Named
}

type CallSite struct {
	Caller *ssa.Function
	Instr  ssa.CallInstruction
}

func (p *Program) Light() *LightCG {
	if p.light != nil {
		return p.light
	}
	g := &LightCG{p: p, callees: map[*ssa.Function][]*ssa.Function{}, callers: map[*ssa.Function][]CallSite{}, impls: map[string][]*ssa.Function{}}
	for path, pk := range p.All {
		if !strings.HasPrefix(path, modPath) {
			continue
		}
		sc := pk.Types.Scope()
		for _, name := range sc.Names() {
			if tn, ok := sc.Lookup(name).(*types.TypeName); ok && !tn.IsAlias() {
				if n, ok := tn.Type().(*types.Named); ok {
					if _, isIface := n.Underlying().(*types.Interface); !isIface {
						g.named = append(g.named, n)
					}
				}
			}
		}
	}
	sort.Slice(g.named, func(i, j int) bool { return g.named[i].String() < g.named[j].String() })
	for _, fn := range p.SrcFuncs() {
		seen := map[*ssa.Function]bool{}
		add := func(c *ssa.Function, site ssa.CallInstruction) {
			if c == nil {
				return
			}
			if site != nil {
				g.callers[c] = append(g.callers[c], CallSite{fn, site})
			}
			if !seen[c] {
				seen[c] = true
				g.callees[fn] = append(g.callees[fn], c)
			}
		}
		eachInstr(fn, func(in ssa.Instruction) {
			switch x := in.(type) {
			case *ssa.MakeClosure:
				add(x.Fn.(*ssa.Function), nil)
			case ssa.CallInstruction:
				cc := x.Common()
				if sc := cc.StaticCallee(); sc != nil {
					add(sc, x)
					return
				}
				if cc.IsInvoke() && cc.Method.Pkg() != nil && strings.HasPrefix(cc.Method.Pkg().Path(), modPath) {
					for _, impl := range g.Impls(cc.Method, cc.Value.Type()) {
						add(impl, x)
					}
				}
			}
		})
	}
	p.light = g
	return g
}

// Impls returns the bluge methods that may be the target of invoking m on a value of interface type it.
func (g *LightCG) Impls(m *types.Func, it types.Type) []*ssa.Function {
	iface, ok := it.Underlying().(*types.Interface)
	if !ok {
		return nil
	}
	key := m.FullName() + "|" + it.String()
	if r, ok := g.impls[key]; ok {
		return r
	}
	var rv []*ssa.Function
	for _, n := range g.named {
		for _, t := range []types.Type{n, types.NewPointer(n)} {
			if !types.Implements(t, iface) {
				continue
			}
			sel := g.p.SSA.MethodSets.MethodSet(t).Lookup(m.Pkg(), m.Name())
			if sel == nil {
				continue
			}
			if fn := g.p.SSA.MethodValue(sel); fn != nil {
				// unwrap promoted-method wrappers to the declared method
				rv = append(rv, fn)
			}
			break
		}
	}
	g.impls[key] = rv
	return rv
}

func (g *LightCG) Callees(fn *ssa.Function) []*ssa.Function { return g.callees[fn] }
func (g *LightCG) Callers(fn *ssa.Function) []CallSite      { return g.callers[fn] }

// Reach returns every function reachable from the roots (roots included).
func (g *LightCG) Reach(roots ...*ssa.Function) map[*ssa.Function]bool {
	seen := map[*ssa.Function]bool{}
	var stack []*ssa.Function
	for _, r := range roots {
		if r != nil && !seen[r] {
			seen[r] = true
			stack = append(stack, r)
		}
	}
	for len(stack) > 0 {
		f := stack[len(stack)-1]
		stack = stack[:len(stack)-1]
		for _, c := range g.callees[f] {
			if !seen[c] {
				seen[c] = true
				stack = append(stack, c)
			}
		}
	}
	return seen
}

// goTargets returns the functions started by `go` statements in fn (static targets and closures).
func goTargets(fn *ssa.Function) []*ssa.Function {
	var rv []*ssa.Function
	eachInstr(fn, func(in ssa.Instruction) {
		if g, ok := in.(*ssa.Go); ok {
			if c := g.Common().StaticCallee(); c != nil {
				rv = append(rv, c)
			}
		}
	})
	return rv
}
