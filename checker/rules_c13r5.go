package main

import (
	"strings"

	"golang.org/x/tools/go/ssa"
)

// C13.R5 - Persist is synchronous.
//
// A Directory.Persist that returns nil vouches for the file as it is at that moment. A goroutine
// started under Persist (directly, in a closure, or in a module helper it calls) outlives the
// call: whatever it does to the item afterwards - close, truncate, unlink on a late cancellation -
// happens after success was reported. No function reachable from a Persist implementation through
// static calls and closures inside the module contains a `go` statement.

func init() {
	registerRule(&RuleInfo{ID: "C13.R5", Title: "Persist starts no goroutine", Floor: 2, Run: ruleC13R5,
		Covers: "every implementation of index.Directory.Persist and the module functions reachable from it"})
}

func ruleC13R5(c *Ctx) {
	for _, impl := range directoryMethodImpls(c.Program, "Persist") {
		var bad []string
		reach := c.Light().Reach(impl)
		var fns []*ssa.Function
		for f := range reach {
			if f.Blocks != nil && strings.HasPrefix(funcPkgPath(f), modPath) {
				fns = append(fns, f)
			}
		}
		sortFuncs(c.Program, fns)
		for _, f := range fns {
			eachInstr(f, func(in ssa.Instruction) {
				if g, ok := in.(*ssa.Go); ok {
					bad = append(bad, "go statement in "+FuncName(f)+" at "+c.Pos(g.Pos()))
				}
			})
		}
		c.Check(len(bad) == 0, "Persist implementation "+FuncName(impl)+" is synchronous", c.Pos(impl.Pos()),
			"no go statement in the code reachable from it inside the module",
			uniqJoin(bad)+": a goroutine started under Persist can close, truncate or unlink the item after Persist has reported success")
	}
}
