package main

import (
	"fmt"
	"go/token"
	"go/types"
	"sort"
	"strings"

	"golang.org/x/tools/go/ssa"
)

// C20 - highlighted fragments are faithful to the stored text.
//
// The statement as a whole (window arithmetic on runes) is not decided. Decided are the clauses
// whose truth is in the shape of the formatter / selector code:
//   R1 a formatter emits the fragment as a telescoping sequence of slices of the fragment's own
//      text: the first starts at Fragment.Start, each next one starts where the previous ended,
//      the last ends at Fragment.End (so removing the markup gives one contiguous piece);
//   R2 the bounds of each of those slices are ordered by the comparisons that dominate it
//      (lo <= hi <= Fragment.End; the no-panic clause inside the formatters);
//   R3 a location taken from the ordered list is dereferenced only behind a nil test (merged
//      locations are nil-ed in place);
//   R4 a Fragment refers to the caller's text itself (offsets are absolute), and the selector hands
//      that same text to the fragmenter;
//   R5 the selector adds a fragment only behind `len(best) < num` and only when the list is empty or
//      a scan over the whole list found no overlap with the candidate.

const pkgHighlight = modPath + "/search/highlight"

func init() {
	registerProperty(&PropertyInfo{
		ID:    "C20",
		Title: "Highlighted fragments are faithful to the stored text",
		Rules: []string{"C20.R1", "C20.R2", "C20.R3", "C20.R4", "C20.R5", "C20.R6", "C20.R7"},
		Decides: "six structural necessary conditions in package search/highlight: (R1) every FragmentFormatter emits the fragment as a telescoping sequence of slices of the fragment's own text - the first begins at Fragment.Start, each next one begins where the previous one ended, every return is reached with the last one ending at Fragment.End - so that stripping the markup leaves one contiguous piece of the original, and the formatter writes no field of a fragment or location; (R2) the bounds of each such slice are ordered (lo <= hi <= Fragment.End) by the comparisons that dominate it, taking Start <= End of one location / fragment as given - the no-panic clause inside the formatters; (R3) a location read from the ordered list is dereferenced only behind a nil test (MergeOverlapping nils merged entries in place); (R4) every Fragment is built over the caller's text itself, not a copy or a sub-slice (all offsets are absolute), and the highlighter hands that same text to the fragmenter; (R5) the highlighter adds a fragment to the result only behind `len(result) < num` and only when the result is empty or a scan over the whole result found no overlap with the candidate; (R7) an existing location's End is overwritten only on the edge where the new value is larger, its Start only where it is smaller (merging overlapping locations extends a marked span, it never cuts one in the middle of a term); (R6) in a fragmenter the lower limit of the backwards growth is re-bound to the End of the location just handled after every fragment, and every backwards step of the window start is guarded by a comparison with that limit. ",
		NotCovered: "the window arithmetic of the fragmenter (fragment size in runes, centring, what happens at multi-byte runes and at both ends of the text), that the best fragment contains a match, the fragment scorer, panics inside the fragmenter for adversarial locations (negative or beyond-the-text offsets need a relational value-range analysis over the rune loops that is out of reach), and that marked spans coincide with term occurrences beyond what R1/R2 imply (the marked slice is bounded by one location's Start and End).",
		Technique:   "go/packages + go/ssa; forward must-dataflow over the SSA CFG of each formatter (set of symbolic values equal to the end of the emitted text, access-path keys, phi edges), dominating-comparison facts closed transitively with induction over loop phis (ordered bounds, only-extend rewrites), dominance / reach-avoiding checks for the selection scan and the grow-back limit, interface implementation enumeration",
		Assumptions: []string{"every TermLocation and Fragment satisfies Start <= End and Fragment.End <= len(Orig) (established by the analyzers and the fragmenter; not re-proved)"},
	})
	registerRule(&RuleInfo{ID: "C20.R1", Title: "a formatter emits contiguous slices of the fragment's text from Start to End", Floor: 6, Run: ruleC20R1,
		Covers: "every slice of Fragment.Orig and every return in every implementation of highlight.FragmentFormatter"})
	registerRule(&RuleInfo{ID: "C20.R2", Title: "slice bounds in a formatter are ordered by dominating comparisons", Floor: 4, Run: ruleC20R2,
		Covers: "every slice of Fragment.Orig in every implementation of highlight.FragmentFormatter"})
	registerRule(&RuleInfo{ID: "C20.R3", Title: "locations of the ordered list are dereferenced only behind a nil test", Floor: 2, Run: ruleC20R3,
		Covers: "every dereference of a *TermLocation read from a TermLocations list in a FragmentFormatter"})
	registerRule(&RuleInfo{ID: "C20.R4", Title: "fragments are views of the caller's text itself", Floor: 2, Run: ruleC20R4,
		Covers: "every store to Fragment.Orig in the module and the text argument of every Fragmenter.Fragment call"})
	registerRule(&RuleInfo{ID: "C20.R5", Title: "best fragments: bounded by num, added only when overlapping none already chosen", Floor: 2, Run: ruleC20R5,
		Covers: "every append to a []*Fragment in every implementation of highlight.Highlighter.BestFragments"})
	registerRule(&RuleInfo{ID: "C20.R7", Title: "merging locations never shrinks one", Floor: 1, Run: ruleC20R7,
		Covers: "every store to TermLocation.Start / End of an existing location in package search/highlight"})
	registerRule(&RuleInfo{ID: "C20.R6", Title: "a fragment window never grows back over the previous location", Floor: 2, Run: ruleC20R6,
		Covers: "every implementation of highlight.Fragmenter.Fragment: the limit variable and the backwards steps of the window start"})
}

func symKey(v ssa.Value) string {
	if v == nil {
		return ""
	}
	if c, ok := v.(*ssa.Const); ok && c.Value != nil {
		return "#" + c.Value.ExactString()
	}
	if p := accessPath(v); p != "" {
		return p
	}
	fn := ""
	if v.Parent() != nil {
		fn = v.Parent().Name()
	}
	return "v:" + v.Name() + "@" + fn
}

func c20Formatters(c *Ctx) []*ssa.Function {
	m := c.IfaceMethod(pkgHighlight, "FragmentFormatter", "Format")
	it := c.Named(pkgHighlight, "FragmentFormatter")
	rv := c.Light().Impls(m, it)
	sort.Slice(rv, func(i, j int) bool { return FuncName(rv[i]) < FuncName(rv[j]) })
	return rv
}

// fragParam: the *Fragment parameter of a formatter.
func fragParam(c *Ctx, fn *ssa.Function) *ssa.Parameter {
	frag := c.Named(pkgHighlight, "Fragment")
	for _, p := range fn.Params {
		if namedOf(p.Type()) == frag {
			if _, ok := p.Type().Underlying().(*types.Pointer); ok {
				return p
			}
		}
	}
	return nil
}

// fragTextSlices: the slice expressions over the text of a Fragment (a load of Fragment.Orig).
func fragTextSlices(fn *ssa.Function, fOrig *types.Var) []*ssa.Slice {
	var rv []*ssa.Slice
	eachInstr(fn, func(in ssa.Instruction) {
		if sl, ok := in.(*ssa.Slice); ok {
			if fv, _ := loadedField(stripConv(sl.X)); fv == fOrig {
				rv = append(rv, sl)
			}
		}
	})
	return rv
}

// emission: a piece of the fragment's text handed to the output: a slice expression over
// Fragment.Orig, or a call of a helper of the package that returns exactly such a slice of its
// fragment parameter between two of its int parameters (`piece(f, lo, hi)`).
type emission struct {
	in     ssa.Instruction
	lo, hi ssa.Value
}

func pieceHelper(h *ssa.Function, fOrig *types.Var) (fi, li, hi int, ok bool) {
	if h == nil || h.Blocks == nil {
		return
	}
	sls := fragTextSlices(h, fOrig)
	if len(sls) != 1 {
		return
	}
	sl := sls[0]
	_, base := loadedField(stripConv(sl.X))
	idx := func(v ssa.Value) int {
		for i, p := range h.Params {
			if ssa.Value(p) == v {
				return i
			}
		}
		return -1
	}
	if sl.Low == nil || sl.High == nil {
		return
	}
	fi, li, hi = idx(base), idx(sl.Low), idx(sl.High)
	ok = fi >= 0 && li >= 0 && hi >= 0
	return
}

func fragEmissions(c *Ctx, fn *ssa.Function, fOrig *types.Var) []emission {
	var rv []emission
	eachInstr(fn, func(in ssa.Instruction) {
		switch x := in.(type) {
		case *ssa.Slice:
			if fv, _ := loadedField(stripConv(x.X)); fv == fOrig {
				rv = append(rv, emission{x, x.Low, x.High})
			}
		case *ssa.Call:
			h := staticCallee(x.Common())
			if h == nil || !c.InRepo(h) || funcPkgPath(h) != pkgHighlight {
				return
			}
			if fi, li, hi, ok := pieceHelper(h, fOrig); ok && len(x.Common().Args) > hi && len(x.Common().Args) > li && len(x.Common().Args) > fi {
				rv = append(rv, emission{x, x.Common().Args[li], x.Common().Args[hi]})
			}
		}
	})
	return rv
}

type keySet map[string]bool

func (s keySet) clone() keySet {
	r := keySet{}
	for k := range s {
		r[k] = true
	}
	return r
}

func (s keySet) String() string {
	var ks []string
	for k := range s {
		ks = append(ks, k)
	}
	sort.Strings(ks)
	return "{" + strings.Join(ks, ", ") + "}"
}

// ---- R1 -----------------------------------------------------------------------------------

func ruleC20R1(c *Ctx) {
	fOrig := c.Field(pkgHighlight, "Fragment", "Orig")
	frag := c.Named(pkgHighlight, "Fragment")
	tloc := c.Named(pkgHighlight, "TermLocation")
	for _, fn := range c20Formatters(c) {
		fp := fragParam(c, fn)
		name := FuncName(fn)
		if fp == nil || len(fn.Blocks) == 0 {
			c.Undecided("formatter "+name, c.Pos(fn.Pos()), "no *Fragment parameter / no body")
			continue
		}
		startKey := "*p:" + fp.Name() + ".&Start"
		endKey := "*p:" + fp.Name() + ".&End"
		isText := map[ssa.Instruction]emission{}
		for _, e := range fragEmissions(c, fn, fOrig) {
			isText[e.in] = e
		}
		if len(isText) == 0 {
			c.Undecided("formatter "+name, c.Pos(fn.Pos()), "the formatter does not slice Fragment.Orig itself: shape not recognised")
			continue
		}
		// no writes to fragments or locations (the symbolic keys are loads of their fields)
		mut := false
		eachInstr(fn, func(in ssa.Instruction) {
			if st, ok := in.(*ssa.Store); ok {
				if fa, ok := st.Addr.(*ssa.FieldAddr); ok {
					if n := namedOf(fa.X.Type()); n == frag || n == tloc {
						mut = true
						c.Violate("formatter "+name+" writes no fragment or location field", c.Pos(st.Pos()),
							"a formatter stores into "+n.Obj().Name()+"."+fieldVar(fa).Name()+": the locations are shared by all fragments of the call")
					}
				}
			}
		})
		if !mut {
			c.OK("formatter "+name+" writes no fragment or location field", c.Pos(fn.Pos()), "no store to a Fragment or TermLocation field")
		}
		// forward must-analysis: the set of symbolic values known to equal the end of the emitted text
		out := make([]keySet, len(fn.Blocks)) // nil = not yet reached (top)
		edgeState := func(p, b *ssa.BasicBlock) keySet {
			if out[p.Index] == nil {
				return nil
			}
			idx := -1
			for i, q := range b.Preds {
				if q == p {
					idx = i
				}
			}
			src := out[p.Index]
			s := src.clone()
			var add []string
			for _, in := range b.Instrs {
				phi, ok := in.(*ssa.Phi)
				if !ok {
					break
				}
				kphi := symKey(phi)
				if idx >= 0 && src[symKey(phi.Edges[idx])] {
					add = append(add, kphi)
				}
				for k := range s {
					if strings.Contains(k, kphi) {
						delete(s, k)
					}
				}
			}
			for _, k := range add {
				s[k] = true
			}
			return s
		}
		type finding struct {
			in  ssa.Instruction
			ok  bool
			msg string
		}
		transfer := func(b *ssa.BasicBlock, in keySet, rec func(finding)) keySet {
			s := in.clone()
			for _, ins := range b.Instrs {
				if e, isEm := isText[ins]; isEm {
					lo := "#0"
					if e.lo != nil {
						lo = symKey(e.lo)
					}
					if rec != nil {
						rec(finding{ins, s[lo], fmt.Sprintf("low bound %s; text emitted so far ends at %s", lo, s)})
					}
					hi := "len(text)"
					if e.hi != nil {
						hi = symKey(e.hi)
					}
					s = keySet{hi: true}
					continue
				}
				switch x := ins.(type) {
				case *ssa.Return:
					if rec != nil {
						rec(finding{x, s[endKey], fmt.Sprintf("text emitted so far ends at %s", s)})
					}
				}
			}
			return s
		}
		inState := func(b *ssa.BasicBlock) keySet {
			if b.Index == 0 {
				return keySet{startKey: true}
			}
			var s keySet
			for _, p := range b.Preds {
				e := edgeState(p, b)
				if e == nil {
					continue
				}
				if s == nil {
					s = e
					continue
				}
				for k := range s {
					if !e[k] {
						delete(s, k)
					}
				}
			}
			return s
		}
		for changed, rounds := true, 0; changed && rounds < 100; rounds++ {
			changed = false
			for _, b := range fn.Blocks {
				in := inState(b)
				if in == nil {
					continue
				}
				o := transfer(b, in, nil)
				if out[b.Index] == nil || len(out[b.Index]) != len(o) {
					out[b.Index] = o
					changed = true
					continue
				}
				for k := range o {
					if !out[b.Index][k] {
						out[b.Index] = o
						changed = true
						break
					}
				}
			}
		}
		ns, nr := 0, 0
		for _, b := range fn.Blocks {
			in := inState(b)
			if in == nil {
				continue
			}
			transfer(b, in, func(f finding) {
				switch f.in.(type) {
				case *ssa.Slice, *ssa.Call:
					ns++
					key := fmt.Sprintf("slice #%d of the fragment text in %s continues the emitted text", ns, name)
					c.Check(f.ok, key, c.Pos(f.in.Pos()), f.msg,
						"this piece of the fragment's text does not begin where the text emitted so far ends ("+f.msg+"): the formatted fragment, stripped of markup, is not a contiguous piece of the original")
				case *ssa.Return:
					nr++
					key := fmt.Sprintf("return #%d of %s has emitted the text up to Fragment.End", nr, name)
					c.Check(f.ok, key, c.Pos(f.in.Pos()), f.msg,
						"a return is reached with the emitted text not ending at Fragment.End ("+f.msg+")")
				}
			})
		}
	}
}

// ---- R2 -----------------------------------------------------------------------------------

type leFacts map[string][]string // a -> {b : a <= b}

func leFactsAt(fn *ssa.Function, blk *ssa.BasicBlock) leFacts {
	rv := leFacts{}
	for _, f := range condFactsAt(fn, blk, 0) {
		b, ok := f.cond.(*ssa.BinOp)
		if !ok {
			continue
		}
		if bt, ok := b.X.Type().Underlying().(*types.Basic); !ok || bt.Info()&types.IsInteger == 0 {
			continue
		}
		x, y := symKey(b.X), symKey(b.Y)
		isTrue := f.edge == 0
		switch b.Op {
		case token.LSS, token.LEQ:
			if isTrue {
				rv[x] = append(rv[x], y)
			} else {
				rv[y] = append(rv[y], x)
			}
		case token.GTR, token.GEQ:
			if isTrue {
				rv[y] = append(rv[y], x)
			} else {
				rv[x] = append(rv[x], y)
			}
		}
	}
	return rv
}

// proveLE: x <= y holds at the end of blk by the dominating comparisons, Start <= End of one
// object, and - for a loop-carried x - by induction over the phi's incoming edges.
func proveLE(fn *ssa.Function, x ssa.Value, kx, ky string, blk *ssa.BasicBlock, depth int) bool {
	if kx == ky {
		return true
	}
	facts := leFactsAt(fn, blk)
	seen := map[string]bool{kx: true}
	work := []string{kx}
	for len(work) > 0 {
		k := work[0]
		work = work[1:]
		if k == ky {
			return true
		}
		next := append([]string{}, facts[k]...)
		if strings.HasSuffix(k, ".&Start") {
			next = append(next, strings.TrimSuffix(k, ".&Start")+".&End")
		}
		for _, n := range next {
			if !seen[n] {
				seen[n] = true
				work = append(work, n)
			}
		}
	}
	if phi, ok := x.(*ssa.Phi); ok && depth < 3 {
		for i, e := range phi.Edges {
			if e == ssa.Value(phi) {
				continue
			}
			if !proveLE(fn, e, symKey(e), ky, phi.Block().Preds[i], depth+1) {
				return false
			}
		}
		return true
	}
	return false
}

func ruleC20R2(c *Ctx) {
	fOrig := c.Field(pkgHighlight, "Fragment", "Orig")
	for _, fn := range c20Formatters(c) {
		fp := fragParam(c, fn)
		if fp == nil {
			continue
		}
		endKey := "*p:" + fp.Name() + ".&End"
		for i, e := range fragEmissions(c, fn, fOrig) {
			key := fmt.Sprintf("bounds of slice #%d of the fragment text in %s", i+1, FuncName(fn))
			if e.lo == nil || e.hi == nil {
				c.Violate(key, c.Pos(e.in.Pos()), "a piece of the fragment text is cut without both bounds: the fragment's Start/End are not respected")
				continue
			}
			lo, hi := symKey(e.lo), symKey(e.hi)
			okLoHi := proveLE(fn, e.lo, lo, hi, e.in.Block(), 0)
			okHiEnd := proveLE(fn, e.hi, hi, endKey, e.in.Block(), 0)
			c.Check(okLoHi && okHiEnd, key, c.Pos(e.in.Pos()), "lo <= hi <= Fragment.End follows from the dominating comparisons",
				fmt.Sprintf("no dominating comparison orders the bounds of this slice (lo<=hi proved: %v, hi<=Fragment.End proved: %v; lo=%s hi=%s): an unmerged, unsorted or out-of-fragment location makes the slice expression panic or emit text outside the fragment", okLoHi, okHiEnd, lo, hi))
		}
	}
}

// ---- R3 -----------------------------------------------------------------------------------

func ruleC20R3(c *Ctx) {
	tloc := c.Named(pkgHighlight, "TermLocation")
	for _, fn := range c20Formatters(c) {
		seen := map[string]bool{}
		eachInstr(fn, func(in ssa.Instruction) {
			fa, ok := in.(*ssa.FieldAddr)
			if !ok || namedOf(fa.X.Type()) != tloc {
				return
			}
			ld, ok := isLoad(fa.X)
			if !ok {
				return
			}
			if _, isElem := ld.X.(*ssa.IndexAddr); !isElem {
				return
			}
			k := symKey(fa.X) + "@" + itoa(fa.Block().Index)
			if seen[k] {
				return
			}
			seen[k] = true
			guarded := false
			for _, f := range condFactsAt(fn, fa.Block(), 0) {
				b, ok := f.cond.(*ssa.BinOp)
				if !ok {
					continue
				}
				var other ssa.Value
				if isNilConst(b.Y) {
					other = b.X
				} else if isNilConst(b.X) {
					other = b.Y
				} else {
					continue
				}
				if other != fa.X && symKey(other) != symKey(fa.X) {
					continue
				}
				if (b.Op == token.NEQ && f.edge == 0) || (b.Op == token.EQL && f.edge == 1) {
					guarded = true
				}
			}
			key := fmt.Sprintf("dereference of a list element in block %d of %s", len(seen), FuncName(fn))
			c.Check(guarded, key, c.Pos(fa.Pos()), "behind a nil test of the element",
				"an element of the ordered location list is dereferenced without a nil test: MergeOverlapping replaces merged locations by nil, so a text with overlapping matches makes the formatter fault")
		})
	}
}

// ---- R4 -----------------------------------------------------------------------------------

func ruleC20R4(c *Ctx) {
	fOrig := c.Field(pkgHighlight, "Fragment", "Orig")
	mFrag := c.IfaceMethod(pkgHighlight, "Fragmenter", "Fragment")
	n := 0
	for _, fn := range c.SrcFuncs() {
		if strings.HasSuffix(funcPkgPath(fn), "_test") {
			continue
		}
		for _, st := range storesToField(fn, fOrig) {
			n++
			key := fmt.Sprintf("text of fragment #%d built in %s", n, FuncName(fn))
			_, isParam := st.Val.(*ssa.Parameter)
			c.Check(isParam, key, c.Pos(st.Pos()), "Fragment.Orig is the function's text parameter itself",
				"Fragment.Orig is not the text the function was given (a copy, a sub-slice or a converted value): Start/End, the separators and every location offset are absolute positions in the caller's text")
		}
		eachInstr(fn, func(in ssa.Instruction) {
			cc := callOf(in)
			if cc == nil || !callsIfaceMethod(cc, mFrag) {
				return
			}
			args := cc.Args
			if !cc.IsInvoke() && len(args) > 0 {
				args = args[1:]
			}
			if len(args) < 1 {
				return
			}
			n++
			key := fmt.Sprintf("text handed to the fragmenter in %s", FuncName(fn))
			_, isParam := args[0].(*ssa.Parameter)
			c.Check(isParam, key, c.Pos(in.Pos()), "the caller's text itself",
				"the fragmenter is not given the text the highlighter was given: fragments would carry offsets into another buffer than the one the locations refer to")
		})
	}
}

// ---- R5 -----------------------------------------------------------------------------------

func lenOfKey(v ssa.Value) string {
	if call, ok := v.(*ssa.Call); ok && builtinName(call.Common()) == "len" {
		return symKey(call.Common().Args[0])
	}
	return ""
}

func stripAssert(v ssa.Value) ssa.Value {
	for i := 0; i < 5; i++ {
		switch x := v.(type) {
		case *ssa.TypeAssert:
			v = x.X
		case *ssa.MakeInterface:
			v = x.X
		case *ssa.ChangeInterface:
			v = x.X
		default:
			return v
		}
	}
	return v
}

func ruleC20R5(c *Ctx) {
	m := c.IfaceMethod(pkgHighlight, "Highlighter", "BestFragments")
	it := c.Named(pkgHighlight, "Highlighter")
	frag := c.Named(pkgHighlight, "Fragment")
	overlaps := c.Method(pkgHighlight, "Fragment", "Overlaps")
	impls := c.Light().Impls(m, it)
	sort.Slice(impls, func(i, j int) bool { return FuncName(impls[i]) < FuncName(impls[j]) })
	for _, fn := range impls {
		var num *ssa.Parameter
		for _, p := range fn.Params {
			if b, ok := p.Type().Underlying().(*types.Basic); ok && b.Kind() == types.Int {
				num = p
			}
		}
		if num == nil {
			c.Undecided("selector "+FuncName(fn), c.Pos(fn.Pos()), "no int parameter (requested number of fragments)")
			continue
		}
		na := 0
		eachInstr(fn, func(in ssa.Instruction) {
			call, ok := in.(*ssa.Call)
			if !ok || builtinName(call.Common()) != "append" {
				return
			}
			sl, ok := call.Type().Underlying().(*types.Slice)
			if !ok || namedOf(sl.Elem()) != frag {
				return
			}
			if _, isPtr := sl.Elem().Underlying().(*types.Pointer); !isPtr {
				return
			}
			na++
			list := call.Common().Args[0]
			lk := symKey(list)
			pos := c.Pos(call.Pos())
			// (a) behind len(list) < num
			bounded, empty := false, false
			for _, f := range condFactsAt(fn, call.Block(), 0) {
				b, ok := f.cond.(*ssa.BinOp)
				if !ok {
					continue
				}
				xl, yl := lenOfKey(b.X), lenOfKey(b.Y)
				isTrue := f.edge == 0
				if xl == lk && b.Y == ssa.Value(num) && ((b.Op == token.LSS && isTrue) || (b.Op == token.GEQ && !isTrue)) {
					bounded = true
				}
				if yl == lk && b.X == ssa.Value(num) && ((b.Op == token.GTR && isTrue) || (b.Op == token.LEQ && !isTrue)) {
					bounded = true
				}
				if k, isC := constInt(b.Y); isC && xl == lk {
					switch {
					case k == 0 && b.Op == token.GTR && !isTrue, k == 0 && b.Op == token.EQL && isTrue, k == 0 && b.Op == token.NEQ && !isTrue,
						k == 0 && b.Op == token.LEQ && isTrue, k == 1 && b.Op == token.LSS && isTrue, k == 1 && b.Op == token.GEQ && !isTrue:
						empty = true
					}
				}
			}
			c.Check(bounded, fmt.Sprintf("append #%d to the chosen fragments in %s is behind len(chosen) < num", na, FuncName(fn)), pos,
				"dominated by the comparison of the list's length with the requested number",
				"a fragment is added to the result without a dominating `len(result) < num`: more fragments than asked for can be returned")
			key := fmt.Sprintf("append #%d to the chosen fragments in %s adds a fragment that overlaps none of them", na, FuncName(fn))
			if empty {
				c.OK(key, pos, "the list is empty on this path")
				return
			}
			elems := appendedElems(call)
			if len(elems) != 1 {
				c.Undecided(key, pos, "append shape not recognised")
				return
			}
			cand := stripAssert(elems[0])
			candPhi, isPhi := cand.(*ssa.Phi)
			if !isPhi {
				c.Undecided(key, pos, "the candidate is not a loop-carried variable: shape not recognised")
				return
			}
			// (i) a loop over the list whose exhausted edge dominates the append
			found, why := false, "no scan over the chosen fragments whose exhausted edge dominates the append"
			for _, sc := range overlapScans(fn, overlaps, lk, func(v ssa.Value) bool { return stripAssert(v) == cand }, &why) {
				if !edgeDominates(sc.iff, 1, call.Block()) {
					continue
				}
				// from the overlapping edge the append is reached only after the candidate was re-bound
				if sc.hit == call.Block() || reachAvoiding(sc.hit, call.Block(), candPhi.Block()) {
					why = "the append is reachable from the overlapping edge without the candidate having been replaced"
					continue
				}
				found = true
			}
			// (ii) or the false edge of a predicate helper that performs that scan over its parameters
			for _, f := range condFactsAt(fn, call.Block(), 0) {
				hc, ok := f.cond.(*ssa.Call)
				if !ok || f.edge != 1 || found {
					continue
				}
				h := staticCallee(hc.Common())
				if h == nil || h.Blocks == nil || !c.InRepo(h) {
					continue
				}
				ci, li := -1, -1
				for k, a := range hc.Common().Args {
					if stripAssert(a) == cand {
						ci = k
					}
					if symKey(a) == lk {
						li = k
					}
				}
				if ci < 0 || li < 0 || ci >= len(h.Params) || li >= len(h.Params) {
					continue
				}
				hwhy := "the predicate helper does not scan its list parameter"
				okHelper := false
				for _, sc := range overlapScans(h, overlaps, symKey(h.Params[li]), func(v ssa.Value) bool { return stripAssert(v) == ssa.Value(h.Params[ci]) }, &hwhy) {
					good := true
					eachInstr(h, func(in ssa.Instruction) {
						r, ok := in.(*ssa.Return)
						if !ok || len(r.Results) != 1 {
							return
						}
						b, isC := constBool(r.Results[0])
						if !isC {
							good = false
							return
						}
						if !b && (!edgeDominates(sc.iff, 1, r.Block()) || sc.hit == r.Block() || reachAvoiding(sc.hit, r.Block(), nil)) {
							good = false // "no overlap" is answered without the scan having been exhausted
						}
					})
					if good {
						okHelper = true
					}
				}
				if okHelper {
					found = true
				} else {
					why = "the predicate " + FuncName(h) + " that guards the append does not answer false only after an exhaustive overlap scan (" + hwhy + ")"
				}
			}
			c.Check(found, key, pos, "behind the exhausted edge of a scan that tests the candidate against every chosen fragment", why+": overlapping fragments can be returned")
		})
	}
}

type overlapScan struct {
	iff *ssa.If         // the scan's loop condition: idx < len(list)
	hit *ssa.BasicBlock // successor taken when an element overlaps the candidate
}

// overlapScans: the loops of fn that run over the list named listKey and, on every round, test the
// candidate against the round's element with Fragment.Overlaps and branch on the result.
func overlapScans(fn *ssa.Function, overlaps *ssa.Function, listKey string, isCand func(ssa.Value) bool, why *string) []overlapScan {
	var rv []overlapScan
	for _, h := range fn.Blocks {
		iff, ok := h.Instrs[len(h.Instrs)-1].(*ssa.If)
		if !ok {
			continue
		}
		cond, ok := iff.Cond.(*ssa.BinOp)
		if !ok || cond.Op != token.LSS || lenOfKey(cond.Y) != listKey {
			continue
		}
		body := h.Succs[0]
		for _, b := range fn.Blocks {
			if !body.Dominates(b) {
				continue
			}
			for _, ins := range b.Instrs {
				oc, ok := ins.(*ssa.Call)
				if !ok || staticCallee(oc.Common()) != overlaps {
					continue
				}
				a0, a1 := oc.Common().Args[0], oc.Common().Args[1]
				var elem ssa.Value
				if isCand(a0) {
					elem = stripAssert(a1)
				} else if isCand(a1) {
					elem = stripAssert(a0)
				} else {
					continue
				}
				ld, ok := isLoad(elem)
				if !ok {
					continue
				}
				ia, ok := ld.X.(*ssa.IndexAddr)
				if !ok || symKey(ia.X) != listKey || symKey(ia.Index) != symKey(cond.X) {
					*why = "the overlap test in the scan does not compare the candidate with the scan's element of the chosen list"
					continue
				}
				everyRound := true
				for _, p := range h.Preds {
					if body.Dominates(p) && !b.Dominates(p) {
						everyRound = false
					}
				}
				if !everyRound {
					*why = "the overlap test is skipped on some rounds of the scan"
					continue
				}
				oif, ok := b.Instrs[len(b.Instrs)-1].(*ssa.If)
				if !ok || oif.Cond != ssa.Value(oc) {
					*why = "the result of the overlap test does not decide a branch"
					continue
				}
				rv = append(rv, overlapScan{iff, b.Succs[0]})
			}
		}
	}
	return rv
}

// ---- R6 -----------------------------------------------------------------------------------

// In a fragmenter: the variable that limits the backwards growth of the window (the value the
// candidate start is compared with before it is decremented) is, on the loop's back edge after a
// fragment was appended, the End of the location just handled; and every subtraction from the
// window start inside the grow-back loop is control dependent on a comparison with that limit.
func ruleC20R6(c *Ctx) {
	m := c.IfaceMethod(pkgHighlight, "Fragmenter", "Fragment")
	it := c.Named(pkgHighlight, "Fragmenter")
	frag := c.Named(pkgHighlight, "Fragment")
	fEnd := c.Field(pkgHighlight, "TermLocation", "End")
	impls := c.Light().Impls(m, it)
	sort.Slice(impls, func(i, j int) bool { return FuncName(impls[i]) < FuncName(impls[j]) })
	for _, fn := range impls {
		name := FuncName(fn)
		// the blocks that append a *Fragment built in place inside a loop
		var appendBlocks []*ssa.BasicBlock
		eachInstr(fn, func(in ssa.Instruction) {
			call, ok := in.(*ssa.Call)
			if !ok || builtinName(call.Common()) != "append" {
				return
			}
			sl, ok := call.Type().Underlying().(*types.Slice)
			if ok && namedOf(sl.Elem()) == frag {
				appendBlocks = append(appendBlocks, call.Block())
			}
		})
		// limit phis: int phis in a loop header one of whose incoming values is a load of TermLocation.End
		n := 0
		for _, b := range fn.Blocks {
			for _, in := range b.Instrs {
				phi, ok := in.(*ssa.Phi)
				if !ok {
					break
				}
				var fromEnd []int
				for i, e := range phi.Edges {
					if fv, _ := loadedField(e); fv == fEnd {
						fromEnd = append(fromEnd, i)
					}
				}
				// is this phi compared with (start - size) before a decrement of start? i.e. used as a limit
				usedAsLimit := false
				if bt, ok := phi.Type().Underlying().(*types.Basic); !ok || bt.Kind() != types.Int || phi.Referrers() == nil {
					continue
				}
				for _, r := range *phi.Referrers() {
					if bo, ok := r.(*ssa.BinOp); ok && (bo.Op == token.GEQ || bo.Op == token.GTR || bo.Op == token.LSS || bo.Op == token.LEQ) {
						other := bo.X
						if other == ssa.Value(phi) {
							other = bo.Y
						}
						if sub, ok := other.(*ssa.BinOp); ok && sub.Op == token.SUB {
							usedAsLimit = true
						}
					}
				}
				if !usedAsLimit {
					continue
				}
				n++
				key := fmt.Sprintf("limit #%d of the backwards growth in %s is re-bound after every fragment", n, name)
				// every back edge that comes from a block reached after an append must carry a TermLocation.End
				ok2 := true
				why := ""
				for i, p := range b.Preds {
					afterAppend := false
					for _, ab := range appendBlocks {
						if ab == p || ab.Dominates(p) {
							afterAppend = true
						}
					}
					if !afterAppend {
						continue
					}
					isEnd := false
					for _, j := range fromEnd {
						if j == i {
							isEnd = true
						}
					}
					if !isEnd {
						ok2 = false
						why = "on the back edge from block " + itoa(p.Index) + " the limit is not the End of the location just handled"
					}
				}
				c.Check(ok2, key, c.Pos(phi.Pos()), "after each appended fragment the limit is the End of the location just handled",
					why+": the next fragment can grow back over the previous location and the two overlap")
				// every subtraction from a window-start phi that is compared with this limit is guarded by that comparison
				for _, r := range *phi.Referrers() {
					bo, ok := r.(*ssa.BinOp)
					if !ok {
						continue
					}
					other := bo.X
					if other == ssa.Value(phi) {
						other = bo.Y
					}
					sub, ok := other.(*ssa.BinOp)
					if !ok || sub.Op != token.SUB {
						continue
					}
					// sub = start - size; the store/rebinding of start to an equal subtraction must be dominated by bo's true edge
					ifi := (*ssa.If)(nil)
					for _, rr := range *bo.Referrers() {
						if i2, ok := rr.(*ssa.If); ok {
							ifi = i2
						}
					}
					if ifi == nil {
						continue
					}
					n++
					k2 := fmt.Sprintf("backwards step guarded by limit comparison #%d in %s", n, name)
					good := true
					eachInstr(fn, func(in ssa.Instruction) {
						s2, ok := in.(*ssa.BinOp)
						if !ok || s2.Op != token.SUB || s2 == sub || s2.X != sub.X || symKey(s2.Y) != symKey(sub.Y) {
							return
						}
						// a second evaluation of start - size in the same loop round: it must sit on the edge where the comparison allowed it
						if s2.Block() == sub.Block() {
							return
						}
						if !sub.Block().Dominates(s2.Block()) {
							return
						}
						wantEdge := 0
						if bo.Op == token.LSS || bo.Op == token.LEQ {
							if bo.X == ssa.Value(sub) {
								wantEdge = 1
							}
						} else if bo.X == ssa.Value(phi) {
							wantEdge = 1
						}
						if !edgeDominates(ifi, wantEdge, s2.Block()) {
							good = false
						}
					})
					c.Check(good, k2, c.Pos(bo.Pos()), "the window start is moved back only on the edge where the comparison with the limit allowed it",
						"the window start is decremented on an edge the limit comparison does not guard: the fragment grows back over the previous location")
				}
			}
		}
		if n == 0 {
			c.Undecided("fragmenter "+name, c.Pos(fn.Pos()), "no loop-carried limit taken from TermLocation.End found: shape not recognised")
		}
	}
}

// ---- R7 -----------------------------------------------------------------------------------

// MergeOverlapping (and whatever else rewrites a location in place) may only extend it: a store
// to End must sit behind a comparison that makes the new value the larger one, a store to Start
// behind one that makes it the smaller one. Stores into a location allocated in the same function
// (construction) are not judged.
func ruleC20R7(c *Ctx) {
	fStart := c.Field(pkgHighlight, "TermLocation", "Start")
	fEndF := c.Field(pkgHighlight, "TermLocation", "End")
	n := 0
	for _, fn := range c.FuncsIn(pkgHighlight) {
		for _, fv := range []*types.Var{fStart, fEndF} {
			for _, st := range storesToField(fn, fv) {
				fa := st.Addr.(*ssa.FieldAddr)
				if isFreshLocal(fa.X) {
					continue
				}
				n++
				cur := "*" + accessPath(fa)
				if accessPath(fa) == "" {
					cur = "*v:" + fa.Name()
				}
				nv := symKey(st.Val)
				var ok bool
				if fv == fEndF {
					ok = proveLE(fn, nil, cur, nv, st.Block(), 0)
				} else {
					ok = proveLE(fn, st.Val, nv, cur, st.Block(), 0)
				}
				key := fmt.Sprintf("rewrite #%d of a location's %s in %s only extends it", n, fv.Name(), FuncName(fn))
				c.Check(ok, key, c.Pos(st.Pos()), "behind a comparison that orders the old and the new value",
					"an existing location's "+fv.Name()+" is overwritten without a dominating comparison with its current value: a location nested in (or starting with) the previous one shrinks the merged span, and the mark ends in the middle of the outer term")
			}
		}
	}
}
