package main

import (
	"go/token"
	"go/types"

	"golang.org/x/tools/go/ssa"
)

// DEP: backward data-dependence slice over SSA values. Flow-insensitive through memory
// cells (a load of a local cell depends on every store to it; a load of x.f / x[i]
// depends on x and on every store to the same field / element of the same base value in
// the function), follows closure bindings, treats a call's result as depending on the
// callee value and all arguments. It is an over-approximation of "may derive from".

type depWalker struct {
	pred    func(ssa.Value) bool
	visited map[ssa.Value]bool
	found   bool
	collect bool
	// fieldStores[f] lists stores to field addresses in function f, computed lazily
	fstores map[*ssa.Function][]*ssa.Store
	// stop, when set, prevents traversal through a value (the value itself is still tested)
	stop  func(ssa.Value) bool
	depth int
}

// dependsOn reports whether the backward slice of v contains a value satisfying pred.
func dependsOn(v ssa.Value, pred func(ssa.Value) bool) bool {
	w := &depWalker{pred: pred, visited: map[ssa.Value]bool{}, fstores: map[*ssa.Function][]*ssa.Store{}}
	w.walk(v)
	return w.found
}

// dependsOnStop is dependsOn with a barrier: values satisfying stop are not traversed.
func dependsOnStop(v ssa.Value, pred func(ssa.Value) bool, stop func(ssa.Value) bool) bool {
	w := &depWalker{pred: pred, visited: map[ssa.Value]bool{}, fstores: map[*ssa.Function][]*ssa.Store{}, stop: stop}
	w.walk(v)
	return w.found
}

// sliceOf returns the whole backward slice of v.
func sliceOf(v ssa.Value) map[ssa.Value]bool {
	w := &depWalker{pred: func(ssa.Value) bool { return false }, visited: map[ssa.Value]bool{}, fstores: map[*ssa.Function][]*ssa.Store{}, collect: true}
	w.walk(v)
	return w.visited
}

func (w *depWalker) storesIn(f *ssa.Function) []*ssa.Store {
	if s, ok := w.fstores[f]; ok {
		return s
	}
	var rv []*ssa.Store
	eachInstr(f, func(in ssa.Instruction) {
		if st, ok := in.(*ssa.Store); ok {
			rv = append(rv, st)
		}
	})
	w.fstores[f] = rv
	return rv
}

func (w *depWalker) walk(v ssa.Value) {
	if v == nil || w.found && !w.collect || w.visited[v] {
		return
	}
	w.visited[v] = true
	if w.pred(v) {
		w.found = true
		if !w.collect {
			return
		}
	}
	if w.stop != nil && w.stop(v) {
		return
	}
	switch x := v.(type) {
	case *ssa.Phi:
		for _, e := range x.Edges {
			w.walk(e)
		}
	case *ssa.UnOp:
		if x.Op == token.MUL {
			w.walkLoad(x.X, x.Parent())
			return
		}
		w.walk(x.X)
	case *ssa.Alloc:
		// value of a cell pointer: its contents matter only through loads. Exception: the
		// backing array of a variadic call / slice literal, whose elements are what flows on.
		if _, isArr := derefType(x.Type()).Underlying().(*types.Array); isArr && x.Referrers() != nil {
			for _, r := range *x.Referrers() {
				if ia, ok := r.(*ssa.IndexAddr); ok && ia.Referrers() != nil {
					for _, rr := range *ia.Referrers() {
						if st, ok := rr.(*ssa.Store); ok && st.Addr == ia {
							w.walk(st.Val)
						}
					}
				}
			}
		}
	case *ssa.FreeVar:
		w.walkFreeVar(x)
	case *ssa.Parameter, *ssa.Const, *ssa.Global, *ssa.Function, *ssa.Builtin:
	case *ssa.Extract:
		// component of a repository function's result: what that function returns there
		if call, ok := x.Tuple.(*ssa.Call); ok && (w.stop == nil || !w.stop(call)) {
			w.walkCalleeReturns(call, x.Index)
		}
		w.walk(x.Tuple)
	case *ssa.Next:
		w.walk(x.Iter)
	case *ssa.Range:
		w.walk(x.X)
	case *ssa.MakeClosure:
		for _, b := range x.Bindings {
			w.walk(b)
		}
	case *ssa.Call:
		cc := x.Common()
		if cc.IsInvoke() {
			w.walk(cc.Value)
		} else if _, ok := cc.Value.(*ssa.Function); !ok {
			w.walk(cc.Value)
		}
		for _, a := range cc.Args {
			w.walk(a)
		}
		if cc.Signature().Results().Len() == 1 {
			w.walkCalleeReturns(x, 0)
		}
	default:
		if in, ok := v.(ssa.Instruction); ok {
			for _, op := range in.Operands(nil) {
				if *op != nil {
					w.walk(*op)
				}
			}
		}
	}
}

// walkCalleeReturns: the idx-th result of a call to a bluge function (or local closure)
// with a body depends on what that function returns in that position (an extracted
// helper must not hide a dependence). Bounded depth.
func (w *depWalker) walkCalleeReturns(call *ssa.Call, idx int) {
	callee := call.Common().StaticCallee()
	if callee == nil || callee.Blocks == nil || w.depth >= 3 {
		return
	}
	if p := funcPkgPath(callee); len(p) < len(modPath) || p[:len(modPath)] != modPath {
		return
	}
	w.depth++
	eachInstr(callee, func(in ssa.Instruction) {
		if r, ok := in.(*ssa.Return); ok && idx < len(r.Results) {
			w.walk(r.Results[idx])
		}
	})
	w.depth--
}

// walkLoad: dependencies of the value loaded from address addr.
func (w *depWalker) walkLoad(addr ssa.Value, fn *ssa.Function) {
	w.walk(addr) // lets pred see the FieldAddr / IndexAddr / Alloc / Global itself
	switch a := addr.(type) {
	case *ssa.Alloc:
		w.storesToCell(a)
	case *ssa.FreeVar:
		// loads through a captured cell: stores in this closure and in the parent
		if a.Referrers() != nil {
			for _, r := range *a.Referrers() {
				if st, ok := r.(*ssa.Store); ok && st.Addr == a {
					w.walk(st.Val)
				}
			}
		}
	case *ssa.FieldAddr:
		fv := fieldVar(a)
		if fn != nil {
			for _, st := range w.storesIn(fn) {
				if fa, ok := st.Addr.(*ssa.FieldAddr); ok && fieldVar(fa) == fv && sameBase(fa.X, a.X) {
					w.walk(st.Val)
				}
			}
		}
	case *ssa.IndexAddr:
		if fn != nil {
			for _, st := range w.storesIn(fn) {
				if ia, ok := st.Addr.(*ssa.IndexAddr); ok && sameBase(ia.X, a.X) {
					w.walk(st.Val)
				}
			}
		}
	}
}

func (w *depWalker) storesToCell(a *ssa.Alloc) {
	if a.Referrers() == nil {
		return
	}
	for _, r := range *a.Referrers() {
		switch x := r.(type) {
		case *ssa.Store:
			if x.Addr == a {
				w.walk(x.Val)
			}
		case *ssa.MakeClosure:
			fn := x.Fn.(*ssa.Function)
			for i, b := range x.Bindings {
				if b == a && i < len(fn.FreeVars) {
					fv := fn.FreeVars[i]
					if fv.Referrers() != nil {
						for _, rr := range *fv.Referrers() {
							if st, ok := rr.(*ssa.Store); ok && st.Addr == fv {
								w.walk(st.Val)
							}
						}
					}
				}
			}
		}
	}
}

func (w *depWalker) walkFreeVar(fv *ssa.FreeVar) {
	fn := fv.Parent()
	parent := fn.Parent()
	if parent == nil {
		return
	}
	idx := -1
	for i, f := range fn.FreeVars {
		if f == fv {
			idx = i
		}
	}
	if idx < 0 {
		return
	}
	eachInstr(parent, func(in ssa.Instruction) {
		if mc, ok := in.(*ssa.MakeClosure); ok && mc.Fn == fn && idx < len(mc.Bindings) {
			b := mc.Bindings[idx]
			w.walk(b)
			if al, ok := b.(*ssa.Alloc); ok {
				w.storesToCell(al)
			}
		}
	})
}

// sameBase: two address bases denote the same object as far as SSA identity / simple
// access paths can tell (identical value, or loads of the same local cell / same field
// of the same base).
func sameBase(a, b ssa.Value) bool {
	if a == b {
		return true
	}
	return accessPath(a) != "" && accessPath(a) == accessPath(b)
}

// accessPath renders a value as a symbolic access path rooted at a parameter, free
// variable, local cell or global ("" when it is not such a path). go/ssa performs no
// CSE, so `s.currs[i]` evaluated twice yields two distinct values with equal paths.
func accessPath(v ssa.Value) string {
	return accessPathD(v, 0)
}

func accessPathD(v ssa.Value, d int) string {
	if d > 12 {
		return ""
	}
	switch x := v.(type) {
	case *ssa.Parameter:
		return "p:" + x.Name()
	case *ssa.FreeVar:
		return "fv:" + x.Name()
	case *ssa.Global:
		return "g:" + x.String()
	case *ssa.Alloc:
		if x.Comment != "" {
			return "cell:" + x.Comment + "@" + itoa(int(x.Pos()))
		}
		return ""
	case *ssa.UnOp:
		if x.Op == token.MUL {
			if p := accessPathD(x.X, d+1); p != "" {
				return "*" + p
			}
		}
		return ""
	case *ssa.FieldAddr:
		if p := accessPathD(x.X, d+1); p != "" {
			fv := fieldVar(x)
			if fv != nil {
				return p + ".&" + fv.Name()
			}
		}
		return ""
	case *ssa.Field:
		if p := accessPathD(x.X, d+1); p != "" {
			fv := fieldVar(x)
			if fv != nil {
				return p + "." + fv.Name()
			}
		}
		return ""
	case *ssa.IndexAddr:
		p := accessPathD(x.X, d+1)
		i := indexPath(x.Index, d+1)
		if p != "" && i != "" {
			return p + "[&" + i + "]"
		}
		return ""
	case *ssa.Index:
		p := accessPathD(x.X, d+1)
		i := indexPath(x.Index, d+1)
		if p != "" && i != "" {
			return p + "[" + i + "]"
		}
		return ""
	case *ssa.ChangeType:
		return accessPathD(x.X, d+1)
	case *ssa.ChangeInterface:
		return accessPathD(x.X, d+1)
	case *ssa.Phi:
		// loop variables: a phi has no path, but name it so x[i] with the same i compares equal
		return "phi:" + x.Name() + "@" + itoa(x.Block().Index)
	case *ssa.BinOp:
		// rotated range loops index with (phi + 1)
		if c, ok := x.Y.(*ssa.Const); ok && c.Value != nil {
			if p := accessPathD(x.X, d+1); p != "" {
				return "(" + p + x.Op.String() + c.Value.ExactString() + ")"
			}
		}
		return ""
	case *ssa.Extract:
		// range-over-map/string element or tuple component of a named call result
		if nx, ok := x.Tuple.(*ssa.Next); ok {
			return "next:" + nx.Name() + "#" + itoa(x.Index)
		}
		return ""
	}
	return ""
}

func indexPath(v ssa.Value, d int) string {
	if c, ok := v.(*ssa.Const); ok {
		return "#" + c.Value.ExactString()
	}
	return accessPathD(v, d)
}

func itoa(i int) string {
	if i == 0 {
		return "0"
	}
	neg := i < 0
	if neg {
		i = -i
	}
	var b [20]byte
	p := len(b)
	for i > 0 {
		p--
		b[p] = byte('0' + i%10)
		i /= 10
	}
	if neg {
		p--
		b[p] = '-'
	}
	return string(b[p:])
}
