package main

import (
	"fmt"

	"golang.org/x/tools/go/ssa"
)

// C17.R5 - term frequencies of different fields are never aliased.
//
// TokenFrequencies entries are updated in place when a later field with the same term is merged
// into a composite field (frequency += ..., Locations = append(...)). An entry adopted from
// another field's map instead of copied makes that later merge inflate the source field's
// frequency: a document with one occurrence scores like one with many. Every *TokenFreq a
// TokenFrequencies method stores into its receiver must be allocated in that method.

func init() {
	registerRule(&RuleInfo{ID: "C17.R5", Title: "merged term frequencies are copies, never shared entries", Floor: 2, Run: ruleC17R5,
		Covers: "every map update on the receiver in the methods of analysis.TokenFrequencies"})
}

func ruleC17R5(c *Ctx) {
	tfs := c.Named(pkgAnalysis, "TokenFrequencies")
	n := 0
	for _, fn := range c.FuncsIn(pkgAnalysis) {
		if fn.Signature.Recv() == nil || namedOf(fn.Signature.Recv().Type()) != tfs || len(fn.Params) == 0 {
			continue
		}
		recv := fn.Params[0]
		eachInstr(fn, func(in ssa.Instruction) {
			mu, ok := in.(*ssa.MapUpdate)
			if !ok || mu.Map != ssa.Value(recv) {
				return
			}
			n++
			key := fmt.Sprintf("entry #%d stored into the receiver in %s is a copy", n, FuncName(fn))
			c.Check(isFreshLocal(mu.Value), key, c.Pos(mu.Pos()), "the stored *TokenFreq is allocated in this method",
				"a *TokenFreq that belongs to another field's frequencies (a parameter or a value read from another map) is stored into this map: entries are updated in place by later merges, so the other field's frequency and locations change with them")
		})
	}
}
