package main

import (
	"fmt"
	"go/token"
	"go/types"
	"strings"

	"golang.org/x/tools/go/ssa"
)

const pkgCollector = modPath + "/search/collector"
const pkgAggs = modPath + "/search/aggregations"

func init() {
	registerProperty(&PropertyInfo{
		ID:    "C16",
		Title: "Aggregations are exact over the whole match set",
		Rules: []string{"C16.R1", "C16.R2", "C16.R3", "C16.R4", "C16.R5", "C16.R6", "C16.R7", "C09.R5"},
		Decides: "that every hit and every needed value reaches every calculator: in every collector function that feeds a hit to the top-level bucket, on every path the document values are loaded (whenever fields are needed) before Bucket.Consume, and Consume happens before the paging key, the pruning bound, the top-N store or the match pool are consulted and before any successful return; every hit obtained from the searcher in the collect loop is handed to that function before the next hit is fetched; every Aggregation type that owns nested aggregations includes their Fields() in its own; every Calculator type that owns buckets finishes each of them in its Finish(). the field list handed to the doc-value reader went through a uniqueness filter; a calculator's match counter is incremented exactly once per consumed match. lists a function builds for a hit with append do not start from a field or package variable.",
		NotCovered: "numeric exactness of the individual calculators (sums, sketches, quantiles); the values the sources extract.",
	})
	registerRule(&RuleInfo{ID: "C16.R1", Title: "every hit is consumed by the aggregations before paging/pruning", Floor: 2, Run: ruleC16R1,
		Covers: "path-sensitive typestate of every function calling Bucket.Consume in search/collector and of the collect loop"})
	registerRule(&RuleInfo{ID: "C16.R4", Title: "every calculator gets its own accumulators", Floor: 5, Run: ruleC16R4,
		Covers: "sibling cross-check over every Aggregation.Calculator(): accumulator fields of the returned calculator are freshly created, never shared with the aggregation object"})
	registerRule(&RuleInfo{ID: "C16.R2", Title: "nested aggregations declare their fields", Floor: 2, Run: ruleC16R2,
		Covers: "sibling cross-check over all implementations of search.Aggregation that own a map of nested aggregations"})
	registerRule(&RuleInfo{ID: "C16.R3", Title: "nested calculators are finished", Floor: 2, Run: ruleC16R3,
		Covers: "sibling cross-check over all implementations of search.Calculator that own buckets"})
}

func ruleC16R1(c *Ctx) {
	bucketConsume := c.Method(pkgSearch, "Bucket", "Consume")
	loadDV := c.Method(pkgSearch, "DocumentMatch", "LoadDocumentValues")
	poolPut := c.Method(pkgSearch, "DocumentMatchPool", "Put")
	const (
		fLoaded uint64 = 1 << iota
		fConsumed
		fPending
	)
	consumers := map[*ssa.Function]bool{}
	for _, fn := range c.FuncsIn(pkgCollector) {
		calls := false
		eachInstr(fn, func(in ssa.Instruction) {
			if cc := callOf(in); cc != nil && cc.StaticCallee() == bucketConsume {
				calls = true
			}
		})
		if !calls {
			continue
		}
		consumers[fn] = true
		name := FuncName(fn)
		// the "fields needed" test: len(x.neededFields) > 0
		var needTest ssa.Value
		eachInstr(fn, func(in ssa.Instruction) {
			if b, ok := in.(*ssa.BinOp); ok && b.Op == token.GTR {
				if call, ok := b.X.(*ssa.Call); ok && builtinName(call.Common()) == "len" {
					if k, okc := constInt(b.Y); okc && k == 0 {
						if f, _ := loadedField(call.Common().Args[0]); f != nil && strings.Contains(strings.ToLower(f.Name()), "field") {
							needTest = b
						}
					}
				}
			}
		})
		var problems []string
		ex := &Explorer{Fn: fn, Keep: map[ssa.Value]bool{}}
		if needTest != nil {
			ex.Keep[needTest] = true
		}
		ex.Outcomes = func(ci ssa.CallInstruction, st *PState) []Outcome {
			if ci.Common().StaticCallee() == loadDV {
				if st.Flags&fLoaded != 0 {
					problems = append(problems, "document values are loaded a second time at "+c.Pos(ci.Pos())+" for the same hit: the doc-value reader is cached per segment reader with the FIRST field list, a later load with other fields yields nothing")
				}
				// the field list must contain the aggregations' fields
				args := ci.Common().Args
				fl := args[len(args)-1]
				if f, _ := loadedField(fl); f != nil {
					okAgg := false
					for _, g := range c.FuncsIn(pkgCollector) {
						for _, sto := range storesToField(g, f) {
							if dependsOn(sto.Val, func(y ssa.Value) bool {
								c2, ok := y.(*ssa.Call)
								return ok && c2.Common().StaticCallee() != nil && c2.Common().StaticCallee().Name() == "Fields" && methodRecvNamed(c2.Common().StaticCallee()) != nil && methodRecvNamed(c2.Common().StaticCallee()).Obj().Name() == "Aggregations"
							}) {
								okAgg = true
							}
						}
					}
					if !okAgg {
						problems = append(problems, "the field list loaded at "+c.Pos(ci.Pos())+" ("+f.Name()+") is never extended with Aggregations.Fields()")
					}
				}
				return []Outcome{{Results: []Tri{TriNo}, Flags: fLoaded}, {Results: []Tri{TriYes}}}
			}
			return nil
		}
		ex.OnInstr = func(in ssa.Instruction, st *PState) bool {
			cc := callOf(in)
			if cc != nil && cc.StaticCallee() == bucketConsume {
				if st.Flags&fLoaded == 0 && (needTest == nil || st.Eval(needTest) != TriNo) {
					problems = append(problems, "Consume at "+c.Pos(in.Pos())+" is reachable without the document values having been loaded although fields may be needed")
				}
				st.Flags |= fConsumed
				return true
			}
			if st.Flags&fConsumed != 0 {
				return true
			}
			// things that must not happen before Consume
			if cc != nil {
				if cc.StaticCallee() == poolPut {
					problems = append(problems, "the hit is returned to the pool at "+c.Pos(in.Pos())+" before the aggregations consumed it")
				}
				if cc.IsInvoke() && strings.HasPrefix(cc.Method.Name(), "Add") && strings.Contains(cc.Value.Type().String(), "collectorStore") {
					problems = append(problems, "the hit is added to the top-N store at "+c.Pos(in.Pos())+" before the aggregations consumed it")
				}
			}
			if u, ok := in.(*ssa.UnOp); ok && u.Op == token.MUL {
				if f, _ := loadedField(u); f != nil && (f.Name() == "searchAfter" || f.Name() == "lowestMatchOutsideResults") {
					problems = append(problems, "the paging key / pruning bound is consulted at "+c.Pos(in.Pos())+" before the aggregations consumed the hit")
				}
			}
			return true
		}
		ex.OnReturn = func(r *ssa.Return, st *PState) {
			ei := fnErrIdx(fn)
			if ei >= 0 && st.Eval(r.Results[ei]) == TriYes {
				return
			}
			// iterator style: a nil hit means "no more hits"
			if len(r.Results) == 2 && st.Eval(r.Results[0]) == TriNo {
				return
			}
			if st.Flags&fConsumed == 0 {
				problems = append(problems, "a successful return at "+c.Pos(r.Pos())+" skips Bucket.Consume: the hit is missing from every aggregation")
			}
		}
		ex.Run()
		if ex.Exceeded {
			c.Undecided("hit is consumed before paging in "+name, c.Pos(fn.Pos()), "path exploration did not finish")
			continue
		}
		c.Check(len(problems) == 0, "hit is consumed before paging in "+name, c.Pos(fn.Pos()), "LoadDocumentValues (if fields are needed) -> Bucket.Consume -> paging/pruning/store on every path", uniqJoin(problems))
	}
	// the collect loop: every hit from the searcher reaches a consumer before the next one is fetched
	for _, fn := range c.FuncsIn(pkgCollector) {
		if consumers[fn] {
			continue
		}
		callsConsumer := false
		eachInstr(fn, func(in ssa.Instruction) {
			if cc := callOf(in); cc != nil && cc.StaticCallee() != nil && consumers[cc.StaticCallee()] {
				callsConsumer = true
			}
		})
		if !callsConsumer {
			continue
		}
		name := FuncName(fn)
		var problems []string
		isNext := func(ci ssa.CallInstruction) bool {
			cc := ci.Common()
			return cc.IsInvoke() && cc.Method.Name() == "Next" && cc.Signature().Results().Len() == 2 && namedOf(cc.Signature().Results().At(0).Type()) != nil &&
				namedOf(cc.Signature().Results().At(0).Type()).Obj().Name() == "DocumentMatch"
		}
		ex := &Explorer{Fn: fn}
		ex.Outcomes = func(ci ssa.CallInstruction, st *PState) []Outcome {
			if isNext(ci) {
				base := st.Flags &^ fPending
				return []Outcome{{Results: []Tri{TriYes, TriNo}, Flags: base | fPending, Replace: true}, {Results: []Tri{TriNo, TriNo}, Flags: base, Replace: true}, {Results: []Tri{TriNo, TriYes}, Flags: base, Replace: true}}
			}
			return nil
		}
		ex.OnInstr = func(in ssa.Instruction, st *PState) bool {
			ci, ok := in.(ssa.CallInstruction)
			if !ok {
				return true
			}
			if isNext(ci) && st.Flags&fPending != 0 {
				problems = append(problems, "the next hit is fetched at "+c.Pos(in.Pos())+" although the previous one was not handed to the aggregating collector function")
			}
			if callee := ci.Common().StaticCallee(); callee != nil && consumers[callee] {
				st.Flags &^= fPending
			}
			return true
		}
		ex.OnReturn = func(r *ssa.Return, st *PState) {
			ei := fnErrIdx(fn)
			if ei >= 0 && st.Eval(r.Results[ei]) == TriYes {
				return
			}
			if ei >= 0 {
				if call, ok := st.Canon(r.Results[ei]).(*ssa.Call); ok && call.Common().IsInvoke() && call.Common().Method.Name() == "Err" {
					return // cancellation: ctx.Err() is non-nil once Done() fired
				}
			}
			if st.Flags&fPending != 0 {
				problems = append(problems, "the collect loop ends successfully at "+c.Pos(r.Pos())+" with an unprocessed hit")
			}
		}
		ex.Run()
		if ex.Exceeded {
			c.Undecided("every hit reaches the aggregations in "+name, c.Pos(fn.Pos()), "path exploration did not finish")
			continue
		}
		c.Check(len(problems) == 0, "every hit reaches the aggregations in "+name, c.Pos(fn.Pos()), "each non-nil hit from searcher.Next is passed on before the next fetch / successful return", uniqJoin(problems))
	}
}

// namedTypesImplementing lists the named (non-interface) types of the repository whose pointer or value implements it.
func namedTypesImplementing(c *Ctx, it *types.Interface) []*types.Named {
	var rv []*types.Named
	for _, n := range c.Light().named {
		if types.Implements(n, it) || types.Implements(types.NewPointer(n), it) {
			rv = append(rv, n)
		}
	}
	return rv
}

func methodOfNamed(c *Ctx, n *types.Named, name string) *ssa.Function {
	for _, t := range []types.Type{types.NewPointer(n), n} {
		if sel := c.SSA.MethodSets.MethodSet(t).Lookup(n.Obj().Pkg(), name); sel != nil {
			if fn := c.SSA.MethodValue(sel); fn != nil && fn.Blocks != nil {
				return fn
			}
		}
	}
	return nil
}

func ruleC16R2(c *Ctx) {
	aggIface := c.Iface(pkgSearch, "Aggregation")
	aggNamed := c.Named(pkgSearch, "Aggregation")
	for _, n := range namedTypesImplementing(c, aggIface) {
		st, ok := n.Underlying().(*types.Struct)
		if !ok {
			continue
		}
		var nested []*types.Var
		for i := 0; i < st.NumFields(); i++ {
			if m, ok := st.Field(i).Type().Underlying().(*types.Map); ok && namedOf(m.Elem()) == aggNamed {
				nested = append(nested, st.Field(i))
			}
		}
		if len(nested) == 0 {
			continue
		}
		fields := methodOfNamed(c, n, "Fields")
		if fields == nil {
			c.Undecided("Fields of "+n.Obj().Name(), "-", "no Fields method body")
			continue
		}
		for _, nf := range nested {
			key := fmt.Sprintf("%s.Fields includes the fields of its nested %s", typeShort(n), nf.Name())
			ok := false
			eachInstr(fields, func(in ssa.Instruction) {
				r, isRet := in.(*ssa.Return)
				if !isRet || len(r.Results) != 1 {
					return
				}
				if dependsOn(r.Results[0], func(y ssa.Value) bool {
					call, isCall := y.(*ssa.Call)
					if !isCall || !call.Common().IsInvoke() || call.Common().Method.Name() != "Fields" {
						return false
					}
					return dependsOnField(call.Common().Value, nf)
				}) {
					ok = true
				}
			})
			c.Check(ok, key, c.Pos(fields.Pos()), "the result derives from Fields() of every nested aggregation",
				"the aggregation owns nested aggregations but does not report their fields: their document values are never loaded and nested metrics are computed over nothing")
		}
	}
}

func ruleC16R3(c *Ctx) {
	calcIface := c.Iface(pkgSearch, "Calculator")
	bucket := c.Named(pkgSearch, "Bucket")
	bucketFinish := c.Method(pkgSearch, "Bucket", "Finish")
	for _, n := range namedTypesImplementing(c, calcIface) {
		st, ok := n.Underlying().(*types.Struct)
		if !ok {
			continue
		}
		var owned []*types.Var
		for i := 0; i < st.NumFields(); i++ {
			switch t := st.Field(i).Type().Underlying().(type) {
			case *types.Slice:
				if namedOf(t.Elem()) == bucket {
					owned = append(owned, st.Field(i))
				}
			}
		}
		if len(owned) == 0 {
			continue
		}
		finish := methodOfNamed(c, n, "Finish")
		if finish == nil {
			c.Undecided("Finish of "+n.Obj().Name(), "-", "no Finish method body")
			continue
		}
		for _, of := range owned {
			key := fmt.Sprintf("%s.Finish finishes the buckets in %s", typeShort(n), of.Name())
			ok := false
			eachInstr(finish, func(in ssa.Instruction) {
				if cc := callOf(in); cc != nil && cc.StaticCallee() == bucketFinish && dependsOnField(cc.Args[0], of) {
					ok = true
				}
			})
			c.Check(ok, key, c.Pos(finish.Pos()), "calls Bucket.Finish on the elements of the owned bucket list",
				"the calculator owns buckets but never finishes them: nested bucket aggregations (terms inside terms/ranges) are neither sorted nor trimmed and their remainder is not computed")
		}
	}
}

// ruleC16R4: a Calculator() must hand out fresh accumulators. An accumulator is a field of the
// returned calculator that is a pointer to a type of a package outside bluge (sketches, digests),
// or a map/slice that the calculator's own methods update.
func ruleC16R4(c *Ctx) {
	aggIface := c.Iface(pkgSearch, "Aggregation")
	for _, n := range namedTypesImplementing(c, aggIface) {
		fn := methodOfNamed(c, n, "Calculator")
		if fn == nil || len(fn.Params) == 0 {
			continue
		}
		recv := fn.Params[0]
		var lits []*ssa.Alloc
		eachInstr(fn, func(in ssa.Instruction) {
			if r, ok := in.(*ssa.Return); ok && len(r.Results) == 1 {
				if al, ok := stripIface(r.Results[0]).(*ssa.Alloc); ok {
					lits = append(lits, al)
				}
			}
		})
		for _, lit := range lits {
			kn := namedOf(lit.Type())
			if kn == nil {
				continue
			}
			kst, ok := kn.Underlying().(*types.Struct)
			if !ok {
				continue
			}
			// fields updated by the calculator's methods
			updated := map[*types.Var]bool{}
			for _, m := range c.SrcFuncs() {
				if methodRecvNamed(m) != kn {
					continue
				}
				eachInstr(m, func(in ssa.Instruction) {
					switch x := in.(type) {
					case *ssa.MapUpdate:
						if f, _ := loadedField(x.Map); f != nil {
							updated[f] = true
						}
					case *ssa.Store:
						if ia, ok := x.Addr.(*ssa.IndexAddr); ok {
							if f, _ := loadedField(ia.X); f != nil {
								updated[f] = true
							}
						}
					}
				})
			}
			key := fmt.Sprintf("%s.Calculator hands out fresh accumulators", typeShort(n))
			var problems []string
			nAcc := 0
			for i := 0; i < kst.NumFields(); i++ {
				fv := kst.Field(i)
				isAcc := updated[fv]
				if p, ok := fv.Type().Underlying().(*types.Pointer); ok {
					if en, ok := p.Elem().(*types.Named); ok && en.Obj().Pkg() != nil && !strings.HasPrefix(en.Obj().Pkg().Path(), modPath) {
						isAcc = true
					}
				}
				if !isAcc {
					continue
				}
				nAcc++
				for _, sto := range fieldStoresOfLiteral(lit, fv) {
					if dependsOn(sto.Val, func(y ssa.Value) bool {
						f, base := loadedField(y)
						return f != nil && base == ssa.Value(recv)
					}) && !isFreshLocal(sto.Val) {
						if _, isCall := sto.Val.(*ssa.Call); isCall {
							continue // built by a constructor from configuration values
						}
						if ext, isExt := sto.Val.(*ssa.Extract); isExt {
							if _, isCall := ext.Tuple.(*ssa.Call); isCall {
								continue
							}
						}
						problems = append(problems, "accumulator field "+fv.Name()+" of the calculator is taken from the aggregation object: every calculator made from it (one per bucket, one per search) shares and pollutes the same state")
					}
				}
			}
			c.Check(len(problems) == 0, key, c.Pos(fn.Pos()), fmt.Sprintf("%d accumulator field(s), each created per calculator", nAcc), uniqJoin(problems))
		}
	}
}
