package main

import (
	"fmt"
	"go/token"
	"go/types"

	"golang.org/x/tools/go/ssa"
)

// C12.R5: a truncated or overlong varint must be an error, never a silent zero, and a
// decoded count must not wrap to a negative loop bound.
//  (a) binary.Uvarint(buf) reports failure only through its byte count (0: buffer too
//      short, <0: overflow) and returns the value 0 with it. Every use of the decoded value
//      must be dominated by the passing edge of a test of that count against 0 or 1.
//  (b) inside the decoder family a conversion of an unsigned 64-bit value to a signed
//      integer must be dominated by an upper-bound test of the operand against a constant
//      (2^63 and above wrap to negative numbers: `for j := 0; j < int(count)` silently
//      accepts a damaged count as "no records").

func init() {
	registerRule(&RuleInfo{ID: "C12.R5", Title: "truncated varints are errors; decoded counts cannot wrap negative", Floor: 1, Run: ruleC12R5,
		Covers: "every binary.Uvarint call of package index; every unsigned-to-signed conversion in the snapshot decoder family"})
}

func ruleC12R5(c *Ctx) {
	n := 0
	for _, fn := range c.FuncsIn(pkgIndex) {
		eachInstr(fn, func(in ssa.Instruction) {
			ci, ok := in.(*ssa.Call)
			if !ok || !isBinaryFunc(ci.Common(), "Uvarint") {
				return
			}
			n++
			key := fmt.Sprintf("uvarint #%d in %s: value used only after its byte count was tested", n, FuncName(fn))
			val, cnt := resultValue2(ci, 0), resultValue2(ci, 1)
			if val == nil || val.Referrers() == nil || len(*val.Referrers()) == 0 {
				c.OK(key, c.Pos(ci.Pos()), "decoded value unused")
				return
			}
			// edges on which the count is known positive
			type edge struct {
				iff *ssa.If
				k   int
			}
			var good []edge
			if cnt != nil && cnt.Referrers() != nil {
				for _, r := range *cnt.Referrers() {
					b, ok := r.(*ssa.BinOp)
					if !ok || b.Referrers() == nil {
						continue
					}
					k, isC := constInt(b.Y)
					x := b.X
					op := b.Op
					if !isC {
						if k2, isC2 := constInt(b.X); isC2 {
							k, x, isC = k2, b.Y, true
							flip := map[token.Token]token.Token{token.LSS: token.GTR, token.GTR: token.LSS, token.LEQ: token.GEQ, token.GEQ: token.LEQ, token.EQL: token.EQL, token.NEQ: token.NEQ}
							op = flip[op]
						}
					}
					if !isC || x != cnt {
						continue
					}
					// which edge implies cnt > 0 ?
					pos := -1
					switch {
					case op == token.LEQ && k == 0, op == token.LSS && k == 1, op == token.LSS && k == 0 && false:
						pos = 1 // false edge of n <= 0 / n < 1
					case op == token.GTR && k == 0, op == token.GEQ && k == 1:
						pos = 0
					}
					if pos < 0 {
						continue
					}
					for _, rr := range *b.Referrers() {
						if iff, ok := rr.(*ssa.If); ok {
							good = append(good, edge{iff, pos})
						}
					}
				}
			}
			var bad []string
			for _, r := range *val.Referrers() {
				ui, ok := r.(ssa.Instruction)
				if !ok {
					continue
				}
				blk := ui.Block()
				if ph, isPhi := ui.(*ssa.Phi); isPhi {
					// the use happens on the incoming edge
					for i, e := range ph.Edges {
						if e == val {
							blk = ph.Block().Preds[i]
						}
					}
				}
				okUse := false
				for _, g := range good {
					if edgeDominates(g.iff, g.k, blk) {
						okUse = true
					}
				}
				if !okUse {
					bad = append(bad, c.Pos(ui.Pos()))
				}
			}
			c.Check(len(bad) == 0, key, c.Pos(ci.Pos()), "every use is dominated by the edge on which the byte count is positive",
				fmt.Sprintf("the decoded value is used at %v without a test of Uvarint's byte count: a truncated or overflowing varint reads as 0 (a truncated snapshot is accepted as another state)", bad))
		})
	}
	// (b)
	m := 0
	for _, fn := range decoderFamily(c.Program) {
		eachInstr(fn, func(in ssa.Instruction) {
			cv, ok := in.(*ssa.Convert)
			if !ok {
				return
			}
			from, ok1 := cv.X.Type().Underlying().(*types.Basic)
			to, ok2 := cv.Type().Underlying().(*types.Basic)
			if !ok1 || !ok2 {
				return
			}
			if !(from.Kind() == types.Uint64 || from.Kind() == types.Uint || from.Kind() == types.Uintptr) || to.Info()&types.IsInteger == 0 || to.Info()&types.IsUnsigned != 0 {
				return
			}
			if _, isConst := cv.X.(*ssa.Const); isConst {
				return
			}
			m++
			key := fmt.Sprintf("unsigned-to-signed conversion #%d in %s is bounded", m, FuncName(fn))
			bounded := false
			eachInstr(fn, func(g ssa.Instruction) {
				iff, ok := g.(*ssa.If)
				if !ok {
					return
				}
				b, ok := iff.Cond.(*ssa.BinOp)
				if !ok {
					return
				}
				same := func(v ssa.Value) bool { return v == cv.X || sameBase(v, cv.X) }
				_, cy := b.Y.(*ssa.Const)
				_, cx := b.X.(*ssa.Const)
				switch {
				case same(b.X) && cy && (b.Op == token.GTR || b.Op == token.GEQ):
					bounded = bounded || edgeDominates(iff, 1, cv.Block())
				case same(b.X) && cy && (b.Op == token.LSS || b.Op == token.LEQ):
					bounded = bounded || edgeDominates(iff, 0, cv.Block())
				case same(b.Y) && cx && (b.Op == token.LSS || b.Op == token.LEQ):
					bounded = bounded || edgeDominates(iff, 1, cv.Block())
				case same(b.Y) && cx && (b.Op == token.GTR || b.Op == token.GEQ):
					bounded = bounded || edgeDominates(iff, 0, cv.Block())
				}
			})
			c.Check(bounded, key, c.Pos(cv.Pos()), "dominated by an upper-bound test of the operand against a constant",
				"an unsigned value read from the file is converted to a signed integer without an upper bound: values of 2^63 and above become negative (a damaged count is taken for 'nothing to read')")
		})
	}
	if m == 0 {
		c.OK("no unsigned-to-signed conversion of decoded values in the decoder family", "-", "none present")
	}
}
