package main

import (
	"fmt"
	"go/token"
	"go/types"
	"strings"

	"golang.org/x/tools/go/ssa"
)

func init() {
	registerProperty(&PropertyInfo{
		ID:    "C15",
		Title: "Writer and Reader are safe for concurrent use and Close terminates",
		Rules: []string{"C15.R1", "C15.R2", "C15.R3", "C15.R4", "C15.R5", "C05.R1"},
		Decides: "static lock-set and atomic discipline (necessary for race freedom) and interruptibility of the background loops: every access to a mutex-guarded field (Writer.root/rootPersisted/persistedCallbacks under rootLock, Snapshot.refs under m, Snapshot.fieldTFRs under m2, closeOnLastRefCounter.refs under m, InMemoryDirectory.segments under segLock, WriterOffline.segCount/segIDs under m) happens with its guard held on every path (write lock for writes), except on objects allocated in the same function or in helpers all of whose callers hold the guard; every field that is passed to sync/atomic anywhere is accessed only through sync/atomic (except before the first go statement of its constructor); the deletion policy is touched only by the persister goroutine or before the goroutines start; every blocking channel operation reachable from the three background loops sits in a select with a close-channel case or is one half of a checked rendezvous; each started loop is counted in the wait group and reaches Done on every exit.",
		NotCovered: "data races inside third-party code; happens-before through channels; termination in general.",
	})
	registerRule(&RuleInfo{ID: "C15.R1", Title: "guarded fields are accessed with their mutex held", Floor: 20, Run: ruleC15R1,
		Covers: "path-sensitive lock-set for every access of the guarded-field table"})
	registerRule(&RuleInfo{ID: "C15.R2", Title: "atomic fields are only accessed atomically", Floor: 100, Run: ruleC15R2,
		Covers: "every use of the address of a field that is passed to sync/atomic somewhere"})
	registerRule(&RuleInfo{ID: "C15.R3", Title: "the deletion policy is confined to the persister goroutine", Floor: 3, Run: ruleC15R3,
		Covers: "every call through Writer.deletionPolicy"})
	registerRule(&RuleInfo{ID: "C15.R4", Title: "background loops are interruptible and accounted for", Floor: 10, Run: ruleC15R4,
		Covers: "every channel operation reachable from the background goroutine roots; wait-group accounting"})
}

type guardSpec struct {
	typ, field, guard string
}

var guardTable = []guardSpec{
	{"Writer", "root", "rootLock"}, {"Writer", "rootPersisted", "rootLock"}, {"Writer", "persistedCallbacks", "rootLock"},
	{"Snapshot", "refs", "m"}, {"Snapshot", "fieldTFRs", "m2"},
	{"closeOnLastRefCounter", "refs", "m"},
	{"InMemoryDirectory", "segments", "segLock"},
	{"WriterOffline", "segCount", "m"}, {"WriterOffline", "segIDs", "m"},
}

func ruleC15R1(c *Ctx) {
	g := c.Light()
	for _, gs := range guardTable {
		fv := c.Field(pkgIndex, gs.typ, gs.field)
		gv := c.Field(pkgIndex, gs.typ, gs.guard)
		// per function: does it access fv, and is the guard held on every path at each access?
		type acc struct {
			in      ssa.Instruction
			isStore bool
			base    ssa.Value
		}
		unlockedIn := map[*ssa.Function][]acc{} // accesses without the guard
		allAcc := 0
		for _, fn := range c.FuncsIn(pkgIndex) {
			var accs []acc
			eachInstr(fn, func(in ssa.Instruction) {
				switch x := in.(type) {
				case *ssa.UnOp:
					if x.Op == token.MUL && isFieldAddr(x.X, fv) {
						accs = append(accs, acc{in, false, x.X.(*ssa.FieldAddr).X})
					}
				case *ssa.Store:
					if isFieldAddr(x.Addr, fv) {
						accs = append(accs, acc{in, true, x.Addr.(*ssa.FieldAddr).X})
					}
				case *ssa.MapUpdate:
					if loadsField(x.Map, fv) {
						_, b := loadedField(x.Map)
						accs = append(accs, acc{in, true, b})
					}
				}
			})
			if len(accs) == 0 {
				continue
			}
			isAcc := map[ssa.Instruction]acc{}
			for _, a := range accs {
				isAcc[a.in] = a
			}
			const (
				fR uint64 = 1 << iota
				fW
			)
			bad := map[ssa.Instruction]string{}
			ex := &Explorer{Fn: fn}
			ex.OnInstr = func(in ssa.Instruction, st *PState) bool {
				if cc := callOf(in); cc != nil {
					kind := lockCallKind(cc, gv)
					if _, isDefer := in.(*ssa.Defer); isDefer {
						return true // a deferred unlock keeps the lock until the function returns
					}
					switch kind {
					case "Lock":
						st.Flags |= fR | fW
					case "RLock":
						st.Flags |= fR
					case "Unlock", "RUnlock":
						st.Flags &^= fR | fW
					}
					return true
				}
				a, ok := isAcc[in]
				if !ok {
					return true
				}
				if isFreshLocal(a.base) {
					return true // constructor exemption
				}
				if st.Flags&fR == 0 {
					bad[in] = "without " + gs.guard
				} else if a.isStore && st.Flags&fW == 0 && guardIsRW(gv) {
					bad[in] = "written under the read lock only"
				}
				return true
			}
			ex.Run()
			for _, a := range accs {
				allAcc++
				if why, isBad := bad[a.in]; isBad {
					unlockedIn[fn] = append(unlockedIn[fn], a)
					_ = why
				}
			}
			if ex.Exceeded {
				c.Undecided(fmt.Sprintf("%s.%s guarded by %s in %s", gs.typ, gs.field, gs.guard, FuncName(fn)), c.Pos(fn.Pos()), "path exploration did not finish")
			}
			if len(unlockedIn[fn]) == 0 {
				c.OK(fmt.Sprintf("%s.%s guarded by %s in %s", gs.typ, gs.field, gs.guard, FuncName(fn)), c.Pos(fn.Pos()), fmt.Sprintf("%d access(es), guard held on every path (or object not yet shared)", len(accs)))
			}
		}
		// helpers: unlocked accesses are fine when every caller holds the guard at the call site
		for fn, accs := range unlockedIn {
			key := fmt.Sprintf("%s.%s guarded by %s in %s", gs.typ, gs.field, gs.guard, FuncName(fn))
			callers := g.Callers(fn)
			okAll := len(callers) > 0 && !ast_IsExported(fn)
			for _, cs := range callers {
				if !heldAt(cs.Instr, gv) {
					okAll = false
				}
			}
			if okAll {
				c.OK(key, c.Pos(fn.Pos()), fmt.Sprintf("accessed without taking %s here, but all %d caller(s) hold it at the call", gs.guard, len(callers)))
				continue
			}
			var where []string
			for _, a := range accs {
				where = append(where, c.Pos(a.in.Pos()))
			}
			c.Violate(key, c.Pos(accs[0].in.Pos()), fmt.Sprintf("%s.%s is accessed at %v on a path where %s is not held (write lock for writes): data race with concurrent users", gs.typ, gs.field, where, gs.guard))
		}
		if allAcc == 0 {
			c.Undecided(fmt.Sprintf("%s.%s guarded by %s", gs.typ, gs.field, gs.guard), "-", "no access found: the guarded-field table is stale")
		}
	}
}

func guardIsRW(gv *types.Var) bool {
	n := namedOf(gv.Type())
	return n != nil && n.Obj().Name() == "RWMutex"
}

func ast_IsExported(fn *ssa.Function) bool {
	return fn.Object() != nil && fn.Object().Exported()
}

// heldAt: on every path to instruction at (in its function) the guard is held.
func heldAt(at ssa.Instruction, gv *types.Var) bool {
	fn := at.Parent()
	held := true
	seen := false
	ex := &Explorer{Fn: fn}
	ex.OnInstr = func(in ssa.Instruction, st *PState) bool {
		if in == at {
			seen = true
			if st.Flags&1 == 0 {
				held = false
			}
			return true
		}
		if cc := callOf(in); cc != nil {
			if _, isDefer := in.(*ssa.Defer); isDefer {
				return true
			}
			switch lockCallKind(cc, gv) {
			case "Lock", "RLock":
				st.Flags |= 1
			case "Unlock", "RUnlock":
				st.Flags &^= 1
			}
		}
		return true
	}
	ex.Run()
	return seen && held && !ex.Exceeded
}

// ---- R2 ---------------------------------------------------------------------------------------

func ruleC15R2(c *Ctx) {
	// atomic fields: fields whose address is an argument of a sync/atomic function somewhere in bluge
	atomicFields := map[*types.Var]bool{}
	isAtomicCall := func(cc *ssa.CallCommon) bool {
		f := staticCallee(cc)
		return f != nil && f.Pkg != nil && f.Pkg.Pkg.Path() == "sync/atomic"
	}
	for _, fn := range c.SrcFuncs() {
		eachInstr(fn, func(in ssa.Instruction) {
			if cc := callOf(in); cc != nil && isAtomicCall(cc) && len(cc.Args) > 0 {
				if fa, ok := cc.Args[0].(*ssa.FieldAddr); ok {
					atomicFields[fieldVar(fa)] = true
				}
			}
		})
	}
	// structs consisting of atomic fields: copying the struct value is a plain read of all of them
	atomicStructs := map[*types.Named]bool{}
	for f := range atomicFields {
		if f.Pkg() == nil {
			continue
		}
		for _, n := range c.Light().named {
			if st, ok := n.Underlying().(*types.Struct); ok {
				for i := 0; i < st.NumFields(); i++ {
					if st.Field(i) == f {
						atomicStructs[n] = true
					}
				}
			}
		}
	}
	// a struct made only of integer counters one of which is atomic is atomic as a whole (convention of index.Stats)
	for nt := range atomicStructs {
		st := nt.Underlying().(*types.Struct)
		allInts := true
		for i := 0; i < st.NumFields(); i++ {
			b, ok := st.Field(i).Type().Underlying().(*types.Basic)
			if !ok || b.Info()&types.IsInteger == 0 {
				allInts = false
			}
		}
		if allInts {
			for i := 0; i < st.NumFields(); i++ {
				atomicFields[st.Field(i)] = true
			}
		} else {
			delete(atomicStructs, nt)
		}
	}
	n := 0
	perFn := map[string]int{}
	for _, fn := range c.SrcFuncs() {
		eachInstr(fn, func(in ssa.Instruction) {
			fa, ok := in.(*ssa.FieldAddr)
			if !ok || fa.Referrers() == nil {
				return
			}
			fv := fieldVar(fa)
			wholeStruct := false
			if !atomicFields[fv] {
				// address of a struct of atomic counters (e.g. &w.stats): loading the whole struct is a plain read
				if nt := namedOf(fv.Type()); nt != nil && atomicStructs[nt] {
					if _, isPtr := fv.Type().Underlying().(*types.Pointer); !isPtr {
						wholeStruct = true
					}
				}
				if !wholeStruct {
					return
				}
			}
			for _, r := range *fa.Referrers() {
				var verdict, why string
				switch x := r.(type) {
				case *ssa.Call:
					if isAtomicCall(x.Common()) || paramOnlyAtomic(x, fa, isAtomicCall) {
						verdict = "ok"
					} else {
						verdict, why = "bad", "its address is handed to a non-atomic function"
					}
				case *ssa.FieldAddr:
					continue // &s.stats.X: judged at the inner field address
				case *ssa.UnOp:
					if x.Op == token.MUL {
						if isFreshLocal(fa.X) && !goReaches(fn, x) {
							verdict = "ok"
						} else {
							verdict, why = "bad", "plain read"
							if wholeStruct {
								why = "the whole struct of atomically updated counters is copied with a plain read"
							}
						}
					}
				case *ssa.Store:
					if x.Addr == ssa.Value(fa) {
						if isFreshLocal(fa.X) && !goReaches(fn, x) {
							verdict = "ok"
						} else {
							verdict, why = "bad", "plain write"
						}
					}
				default:
					continue
				}
				if verdict == "" {
					continue
				}
				n++
				perFn[FuncName(fn)+"|"+fv.Name()]++
				key := fmt.Sprintf("use #%d of atomic field %s in %s", perFn[FuncName(fn)+"|"+fv.Name()], fv.Name(), FuncName(fn))
				c.Check(verdict == "ok", key, c.Pos(r.Pos()), "through sync/atomic (or before the object is shared)",
					"field "+fv.Name()+" is updated with sync/atomic elsewhere but here: "+why+" (data race / torn read under concurrent use)")
			}
		})
	}
}

// ---- R3 ---------------------------------------------------------------------------------------

func ruleC15R3(c *Ctx) {
	a := c.Idx()
	roots, others := persisterRoots(c.Program)
	if len(roots) != 1 {
		c.Undecided("persister root", "-", "no unique persister goroutine")
		return
	}
	reach := c.Light().Reach(roots[0])
	otherReach := c.Light().Reach(others...)
	n := 0
	for _, fn := range c.FuncsIn(pkgIndex) {
		eachInstr(fn, func(in ssa.Instruction) {
			u, ok := in.(*ssa.UnOp)
			if !ok || u.Op != token.MUL || !isFieldAddr(u.X, a.WDeletionPolicy) {
				return
			}
			n++
			key := fmt.Sprintf("use #%d of Writer.deletionPolicy in %s", n, FuncName(fn))
			top := enclosingTop(fn)
			switch {
			case reach[top] && !otherReach[top] && !calledFromOutsideGoroutines(c, top, reach):
				c.OK(key, c.Pos(in.Pos()), "persister goroutine only")
			case top == a.OpenWriter && !goReaches(a.OpenWriter, in) || onlyCalledBeforeGo(c, top, a):
				c.OK(key, c.Pos(in.Pos()), "before the goroutines are started")
			default:
				c.Violate(key, c.Pos(in.Pos()), "the deletion policy has no lock of its own and is used here from a goroutine other than the persister (or from an API call)")
			}
		})
	}
}

// ---- R4 ---------------------------------------------------------------------------------------

func ruleC15R4(c *Ctx) {
	a := c.Idx()
	roots := goTargets(a.OpenWriter)
	// loops started with `go` directly in OpenWriter (the analysis workers are started through config.GoFunc)
	fNotify := c.Field(pkgIndex, "segmentMerge", "notifyCh")
	isCloseCh := func(v ssa.Value) bool {
		if loadsField(v, a.WCloseCh) {
			return true
		}
		p, ok := v.(*ssa.Parameter)
		return ok && strings.Contains(strings.ToLower(p.Name()), "close")
	}
	reach := c.Light().Reach(roots...)
	n := 0
	for _, fn := range c.FuncsIn(pkgIndex) {
		if !reach[enclosingTop(fn)] {
			continue
		}
		eachInstr(fn, func(in ssa.Instruction) {
			switch x := in.(type) {
			case *ssa.Select:
				n++
				key := fmt.Sprintf("select #%d in %s", n, FuncName(fn))
				if !x.Blocking {
					c.OK(key, c.Pos(in.Pos()), "non-blocking")
					return
				}
				has := false
				for _, st := range x.States {
					if st.Dir == types.RecvOnly && isCloseCh(st.Chan) {
						has = true
					}
				}
				c.Check(has, key, c.Pos(in.Pos()), "has a <-closeCh case", "a blocking select in a background loop has no close-channel case: Close() can wait forever")
				// the close case must leave the loop: once closeCh is closed the same select would fire again at once
				if has {
					idx := resultValue2(x, 0)
					for k, st := range x.States {
						if st.Dir != types.RecvOnly || !isCloseCh(st.Chan) || idx == nil || idx.Referrers() == nil {
							continue
						}
						for _, r := range *idx.Referrers() {
							b, ok := r.(*ssa.BinOp)
							if !ok || b.Op != token.EQL {
								continue
							}
							if kk, okc := constInt(b.Y); !okc || int(kk) != k || b.Referrers() == nil {
								continue
							}
							for _, rr := range *b.Referrers() {
								iff, ok := rr.(*ssa.If)
								if !ok {
									continue
								}
								n++
								key2 := fmt.Sprintf("close case of select #%d leaves its loop in %s", n, FuncName(fn))
								spins := blockReachable(iff.Block().Succs[0], x.Block())
								c.Check(!spins, key2, c.Pos(in.Pos()), "after the close channel fired the select is not reached again",
									"after <-closeCh fired, control can come back to the same select (e.g. a bare `break` that only leaves the select): the loop spins on the closed channel and Close() never returns")
							}
						}
					}
				}
			case *ssa.Send:
				n++
				key := fmt.Sprintf("send #%d in %s", n, FuncName(fn))
				switch {
				case dependsOnField(x.Chan, a.SIApplied):
					c.OK(key, c.Pos(in.Pos()), "rendezvous: the Batch caller is blocked receiving from applied (C05.R3)")
				case dependsOnField(x.Chan, fNotify):
					c.OK(key, c.Pos(in.Pos()), "rendezvous: the requester is blocked receiving from notifyCh (C06.R4)")
				case dependsOnField(x.Chan, a.WRootPersisted, a.SIPersisted):
					c.OK(key, c.Pos(in.Pos()), "buffered ack channel (capacity checked by C02.R4)")
				default:
					c.Violate(key, c.Pos(in.Pos()), "a bare channel send in a background loop that is neither in a select with a close case nor a known rendezvous: Close() can block forever")
				}
			case *ssa.UnOp:
				if x.Op != token.ARROW {
					return
				}
				n++
				key := fmt.Sprintf("receive #%d in %s", n, FuncName(fn))
				switch {
				case dependsOnField(x.X, fNotify):
					c.OK(key, c.Pos(in.Pos()), "rendezvous: answered on every path of the merge introduction (C06.R4)")
				case isCloseCh(x.X):
					c.OK(key, c.Pos(in.Pos()), "receive from the close channel")
				default:
					c.Violate(key, c.Pos(in.Pos()), "a bare channel receive in a background loop that is neither in a select with a close case nor a known rendezvous")
				}
			}
		})
	}
	// wait-group accounting
	adds, gos := 0, 0
	eachInstr(a.OpenWriter, func(in ssa.Instruction) {
		if cc := callOf(in); cc != nil {
			if f := cc.StaticCallee(); f != nil && isFuncNamed(f, "sync", "WaitGroup.Add") {
				if k, ok := constInt(cc.Args[1]); ok {
					adds += int(k)
				}
			}
		}
		if _, ok := in.(*ssa.Go); ok {
			gos++
		}
	})
	c.Check(adds == gos && gos > 0, "every started loop is counted in the wait group", c.Pos(a.OpenWriter.Pos()), fmt.Sprintf("%d go statements, wait group incremented by %d", gos, adds),
		fmt.Sprintf("%d go statements but the wait group is incremented by %d: Close() returns early or never", gos, adds))
	for _, r := range roots {
		key := "loop " + FuncName(r) + " signals Done on every exit"
		deferred := false
		eachInstr(r, func(in ssa.Instruction) {
			if d, ok := in.(*ssa.Defer); ok {
				if f := d.Common().StaticCallee(); f != nil && isFuncNamed(f, "sync", "WaitGroup.Done") && d.Block() == r.Blocks[0] {
					deferred = true
				}
			}
		})
		if deferred {
			c.OK(key, c.Pos(r.Pos()), "deferred at entry")
			continue
		}
		bad := false
		ex := &Explorer{Fn: r}
		ex.OnInstr = func(in ssa.Instruction, st *PState) bool {
			if cc := callOf(in); cc != nil {
				if f := cc.StaticCallee(); f != nil && isFuncNamed(f, "sync", "WaitGroup.Done") {
					st.Flags |= 1
				}
			}
			return true
		}
		ex.OnReturn = func(ret *ssa.Return, st *PState) {
			if st.Flags&1 == 0 {
				bad = true
			}
		}
		ex.Run()
		c.Check(!bad && !ex.Exceeded, key, c.Pos(r.Pos()), "every return path calls asyncTasks.Done()", "a return path of the loop skips asyncTasks.Done(): Close() waits forever")
	}
}

// paramOnlyAtomic: the address is passed to a repository helper whose corresponding
// parameter is used only as the address argument of sync/atomic functions.
func paramOnlyAtomic(call *ssa.Call, addr ssa.Value, isAtomicCall func(*ssa.CallCommon) bool) bool {
	callee := call.Common().StaticCallee()
	if callee == nil || callee.Blocks == nil {
		return false
	}
	for i, arg := range call.Common().Args {
		if arg != addr || i >= len(callee.Params) {
			continue
		}
		p := callee.Params[i]
		if p.Referrers() == nil || len(*p.Referrers()) == 0 {
			return false
		}
		for _, r := range *p.Referrers() {
			c2, ok := r.(*ssa.Call)
			if !ok || !isAtomicCall(c2.Common()) || c2.Common().Args[0] != ssa.Value(p) {
				if _, isDbg := r.(*ssa.DebugRef); isDbg {
					continue
				}
				return false
			}
		}
		return true
	}
	return false
}
