package main

import (
	"fmt"
	"go/token"
	"go/types"
	"strings"

	"golang.org/x/tools/go/ssa"
)

const pkgMergeplan = pkgIndex + "/mergeplan"

func init() {
	registerProperty(&PropertyInfo{
		ID:    "C19",
		Title: "Merge plans are well-formed and keep the segment count bounded",
		Rules: []string{"C19.R1", "C19.R2", "C19.R3", "C19.R4", "C19.R5", "C19.R6", "C14.R2", "C14.R1"},
		Decides: "shape conditions of a well-formed, deterministic plan: the planner package constructs no Segment of its own and every segment put into a task derives from the input list; after every task is appended the eligible list is reassigned to removeSegments(<the eligible list>, <that task's segments>) before the next task can be formed (disjoint tasks), and the list it filters is the eligible list, not the full input; a segment joins a roster only behind a comparison that reads MaxSegmentSize and the running roster size, and becomes eligible only behind a comparison with MaxSegmentSize/2; the functions reachable from Plan contain no map iteration, select, go statement or call into math/rand or time, and the sort comparator falls back to the segment id; while over budget, planning stops early only when no roster at all could be formed. the merger's progress marker does not advance when planning/executing the merge failed (C14.R2). a failed merge task makes planning fail, so the merger retries it (C14.R1).",
		NotCovered: "convergence and the logarithmic bound over histories of arrivals (a statement about sequences of plans, not about the shape of one).",
	})
	registerRule(&RuleInfo{ID: "C19.R1", Title: "tasks only contain input segments", Floor: 2, Run: ruleC19R1, Covers: "allocation sites and MergeTask literals of package mergeplan"})
	registerRule(&RuleInfo{ID: "C19.R2", Title: "tasks are disjoint: chosen segments leave the eligible list", Floor: 2, Run: ruleC19R2, Covers: "every append of a MergeTask"})
	registerRule(&RuleInfo{ID: "C19.R3", Title: "size bounds guard roster membership and eligibility", Floor: 2, Run: ruleC19R3, Covers: "control dependence of roster/eligible appends"})
	registerRule(&RuleInfo{ID: "C19.R4", Title: "planning is deterministic", Floor: 3, Run: ruleC19R4, Covers: "functions reachable from Plan"})
	registerRule(&RuleInfo{ID: "C19.R5", Title: "planning gives up early only when no roster exists", Floor: 1, Run: ruleC19R5, Covers: "guards of returns inside the over-budget loop"})
}

func planFuncs(c *Ctx) []*ssa.Function {
	plan := c.Func(pkgMergeplan, "Plan")
	var rv []*ssa.Function
	for f := range c.Light().Reach(plan) {
		if f.Blocks != nil && funcPkgPath(f) == pkgMergeplan {
			rv = append(rv, f)
		}
	}
	sortFuncs(c.Program, rv)
	return rv
}

func ruleC19R1(c *Ctx) {
	segIface := c.Iface(pkgMergeplan, "Segment")
	task := c.Named(pkgMergeplan, "MergeTask")
	fSegs := c.Field(pkgMergeplan, "MergeTask", "Segments")
	// no non-test type of the package implements Segment
	var impl []string
	for _, n := range c.Light().named {
		if n.Obj().Pkg().Path() == pkgMergeplan && (types.Implements(n, segIface) || types.Implements(types.NewPointer(n), segIface)) {
			impl = append(impl, n.Obj().Name())
		}
	}
	c.Check(len(impl) == 0, "package mergeplan constructs no Segment of its own", "-", "no type of the package implements Segment", fmt.Sprintf("types %v implement Segment inside the planner", impl))
	n := 0
	for _, fn := range planFuncs(c) {
		var inputs []ssa.Value
		for _, p := range fn.Params {
			inputs = append(inputs, p)
		}
		eachInstr(fn, func(in ssa.Instruction) {
			al, ok := in.(*ssa.Alloc)
			if !ok || al.Comment != "complit" || namedOf(al.Type()) != task {
				return
			}
			for _, st := range fieldStoresOfLiteral(al, fSegs) {
				n++
				ok2 := dependsOn(st.Val, func(y ssa.Value) bool {
					for _, p := range inputs {
						if y == p {
							return true
						}
					}
					return false
				})
				c.Check(ok2, fmt.Sprintf("task #%d in %s is built from the input segments", n, FuncName(fn)), c.Pos(al.Pos()), "Segments derives from the function's input list", "a task lists segments that do not come from the planner's input")
			}
		})
	}
}

func ruleC19R2(c *Ctx) {
	task := c.Named(pkgMergeplan, "MergeTask")
	fSegs := c.Field(pkgMergeplan, "MergeTask", "Segments")
	n := 0
	for _, fn := range planFuncs(c) {
		// the eligibility filter result (the eligible list) in this function
		isEligibleSource := func(y ssa.Value) bool {
			call, ok := y.(*ssa.Call)
			if !ok || call.Common().StaticCallee() == nil {
				return false
			}
			return readsHalfMax(call.Common().StaticCallee())
		}
		eachInstr(fn, func(in ssa.Instruction) {
			al, ok := in.(*ssa.Alloc)
			if !ok || al.Comment != "complit" || namedOf(al.Type()) != task {
				return
			}
			stores := fieldStoresOfLiteral(al, fSegs)
			if len(stores) != 1 {
				return
			}
			roster := stores[0].Val
			n++
			key := fmt.Sprintf("segments of task #%d leave the eligible list in %s", n, FuncName(fn))
			// a call remove(<eligible>, roster) whose result is carried on, reachable from the literal
			okRemove := false
			why := "no call removes the task's segments from the eligible list after the task is formed"
			eachInstr(fn, func(x ssa.Instruction) {
				call, ok := x.(*ssa.Call)
				if !ok || call.Common().StaticCallee() == nil || len(call.Common().Args) != 2 || funcPkgPath(call.Common().StaticCallee()) != pkgMergeplan {
					return
				}
				if !sameValueOrPhiOf(call.Common().Args[1], roster) {
					return
				}
				if !(al.Block() == call.Block() || al.Block().Dominates(call.Block())) {
					return
				}
				if !dependsOn(call.Common().Args[0], isEligibleSource) {
					why = "the list that is filtered at " + c.Pos(call.Pos()) + " is not the eligible list (it does not derive from the eligibility filter): segments above half the maximum size become mergeable"
					return
				}
				// the filtered list must be the one the loop goes on with: result flows into a phi or is the value tested next
				if call.Referrers() != nil && len(*call.Referrers()) > 0 {
					okRemove = true
				}
			})
			c.Check(okRemove, key, c.Pos(al.Pos()), "eligibles = removeSegments(eligibles, task segments) follows the task", why)
		})
	}
}

func sameValueOrPhiOf(a, b ssa.Value) bool {
	if a == b {
		return true
	}
	return dependsOnStop(a, func(y ssa.Value) bool { return y == b }, func(y ssa.Value) bool { _, isCall := y.(*ssa.Call); return isCall }) ||
		dependsOnStop(b, func(y ssa.Value) bool { return y == a }, func(y ssa.Value) bool { _, isCall := y.(*ssa.Call); return isCall })
}

// readsHalfMax: the function compares something with MaxSegmentSize / 2.
func readsHalfMax(f *ssa.Function) bool {
	if f.Blocks == nil {
		return false
	}
	found := false
	eachInstr(f, func(in ssa.Instruction) {
		b, ok := in.(*ssa.BinOp)
		if !ok || b.Op != token.QUO {
			return
		}
		if k, okc := constInt(b.Y); okc && k == 2 {
			if fv, _ := loadedField(b.X); fv != nil && fv.Name() == "MaxSegmentSize" {
				found = true
			}
		}
	})
	return found
}

func ruleC19R3(c *Ctx) {
	n := 0
	for _, fn := range planFuncs(c) {
		eachInstr(fn, func(in ssa.Instruction) {
			call, ok := in.(*ssa.Call)
			if !ok || builtinName(call.Common()) != "append" {
				return
			}
			sl, ok := call.Type().Underlying().(*types.Slice)
			if !ok || namedOf(sl.Elem()) == nil || namedOf(sl.Elem()).Obj().Name() != "Segment" {
				return
			}
			// find a dominating If whose condition reads MaxSegmentSize
			var guard *ssa.If
			half := false
			eachInstr(fn, func(g ssa.Instruction) {
				iff, ok := g.(*ssa.If)
				if !ok || !edgeDominates(iff, 0, call.Block()) {
					return
				}
				if dependsOn(iff.Cond, func(y ssa.Value) bool {
					fv, _ := loadedField(y)
					return fv != nil && fv.Name() == "MaxSegmentSize"
				}) {
					guard = iff
					half = dependsOn(iff.Cond, func(y ssa.Value) bool {
						b, ok := y.(*ssa.BinOp)
						if !ok || b.Op != token.QUO {
							return false
						}
						k, okc := constInt(b.Y)
						return okc && k == 2
					})
				}
			})
			if guard == nil {
				return // not a size-guarded list (copies, empties, result of removal)
			}
			n++
			b, _ := guard.Cond.(*ssa.BinOp)
			okCmp := b != nil && (b.Op == token.LSS || b.Op == token.LEQ)
			if half {
				c.Check(okCmp, fmt.Sprintf("eligibility #%d in %s is bounded by MaxSegmentSize/2", n, FuncName(fn)), c.Pos(in.Pos()), "append behind LiveSize < MaxSegmentSize/2", "eligibility is not decided by an upper-bound comparison with MaxSegmentSize/2")
			} else {
				running := false
				if b != nil {
					if sum, ok := b.X.(*ssa.BinOp); ok && sum.Op == token.ADD {
						_, p1 := sum.X.(*ssa.Phi)
						_, p2 := sum.Y.(*ssa.Phi)
						running = p1 || p2
					}
				}
				c.Check(okCmp && running, fmt.Sprintf("roster membership #%d in %s is bounded by MaxSegmentSize", n, FuncName(fn)), c.Pos(in.Pos()), "append behind runningSize + LiveSize < MaxSegmentSize", "a segment joins a roster without an upper-bound test of the running roster size against MaxSegmentSize")
			}
		})
	}
}

func ruleC19R4(c *Ctx) {
	for _, fn := range planFuncs(c) {
		var bad []string
		eachInstr(fn, func(in ssa.Instruction) {
			switch x := in.(type) {
			case *ssa.Range:
				if _, isMap := x.X.Type().Underlying().(*types.Map); isMap {
					bad = append(bad, "map iteration at "+c.Pos(in.Pos()))
				}
			case *ssa.Select:
				bad = append(bad, "select at "+c.Pos(in.Pos()))
			case *ssa.Go:
				bad = append(bad, "go statement at "+c.Pos(in.Pos()))
			case *ssa.Call:
				if f := x.Common().StaticCallee(); f != nil && f.Pkg != nil {
					p := f.Pkg.Pkg.Path()
					if p == "math/rand" || p == "time" || strings.HasPrefix(p, "math/rand/") {
						bad = append(bad, "call into "+p+" at "+c.Pos(in.Pos()))
					}
				}
			}
		})
		c.Check(len(bad) == 0, "no source of nondeterminism in "+FuncName(fn), c.Pos(fn.Pos()), "no map range, select, go, rand or time", strings.Join(bad, "; "))
	}
	// comparator tie-break on ID
	less := c.MethodOpt(pkgMergeplan, "byLiveSizeDescending", "Less")
	if less == nil {
		c.Undecided("sort comparator", "-", "byLiveSizeDescending.Less not found")
		return
	}
	usesID := false
	eachInstr(less, func(in ssa.Instruction) {
		if cc := callOf(in); cc != nil && cc.IsInvoke() && cc.Method.Name() == "ID" {
			usesID = true
		}
	})
	c.Check(usesID, "sort comparator breaks ties by segment id", c.Pos(less.Pos()), "falls back to ID()", "segments of equal live size are ordered arbitrarily: the plan depends on the input order")
}

func ruleC19R5(c *Ctx) {
	n := 0
	for _, fn := range planFuncs(c) {
		eachInstr(fn, func(in ssa.Instruction) {
			iff, ok := in.(*ssa.If)
			if !ok {
				return
			}
			head := enclosingLoopHeader(iff.Block())
			if head == nil {
				return
			}
			loop := naturalLoop(head)
			normalExit := map[*ssa.BasicBlock]bool{}
			for _, s := range head.Succs {
				if !loop[s] {
					normalExit[s] = true
				}
			}
			for edge, succ := range iff.Block().Succs {
				if loop[succ] || normalExit[succ] {
					continue
				}
				if _, isRet := succ.Instrs[len(succ.Instrs)-1].(*ssa.Return); !isRet {
					continue
				}
				// an early return from inside the loop
				n++
				_, op, k, okc := lenCompare(iff.Cond)
				okGuard := false
				if okc {
					e := op
					if edge == 1 {
						neg := map[token.Token]token.Token{token.LSS: token.GEQ, token.GEQ: token.LSS, token.GTR: token.LEQ, token.LEQ: token.GTR, token.EQL: token.NEQ, token.NEQ: token.EQL}
						e = neg[op]
					}
					okGuard = e == token.EQL && k == 0 || e == token.LEQ && k == 0 || e == token.LSS && k == 1
				}
				c.Check(okGuard, fmt.Sprintf("early return #%d inside the planning loop of %s", n, FuncName(fn)), c.Pos(in.Pos()), "only when the best roster is empty",
					"the planner gives up while over budget although a non-empty roster may have been found: from then on no plan is produced and the segment count grows without bound")
			}
		})
	}
	if n == 0 {
		c.OK("no early return inside the planning loop", "-", "planning only ends through the loop condition")
	}
}
